#!/usr/bin/env python3
"""
A small parser for the subset of Rust that /repo/src is written in (function bodies: let / if / if let /
match / while / loop / for / return / break / assignments / method calls / macro invocations / closures /
casts / references / tuples / array literals / struct literals / unsafe blocks).  Used by tools/rust2lean.py.

It is deliberately strict: anything outside the subset raises ParseError, and the translator then reports the
function as untranslatable (the tie through the translator is broken for it; nothing is guessed).
"""
import re


class ParseError(Exception):
    pass


TOKEN_RE = re.compile(r"""
    (?P<ws>\s+)
  | (?P<lcomment>//[^\n]*)
  | (?P<bcomment>/\*.*?\*/)
  | (?P<str>b?"(?:[^"\\]|\\.)*")
  | (?P<char>b?'(?:[^'\\]|\\.)')
  | (?P<lifetime>'[A-Za-z_][A-Za-z_0-9]*)
  | (?P<num>0x[0-9a-fA-F_]+(?:[iu](?:8|16|32|64|128|size))?|[0-9][0-9_]*(?:\.[0-9][0-9_]*)?(?:[iuf](?:8|16|32|64|128|size))?)
  | (?P<ident>[A-Za-z_][A-Za-z_0-9]*)
  | (?P<punct>\.\.=|\.\.\.|::|->|=>|==|!=|<=|>=|&&|\|\||\+=|-=|\*=|/=|%=|\^=|&=|\|=|\.\.|[-+*/%^!&|=<>@.,;:#$?(){}\[\]])
""", re.X | re.S)


class Tok:
    __slots__ = ("kind", "val", "pos")

    def __init__(self, kind, val, pos):
        self.kind, self.val, self.pos = kind, val, pos

    def __repr__(self):
        return f"{self.kind}:{self.val}"


def lex(src):
    out, pos = [], 0
    while pos < len(src):
        m = TOKEN_RE.match(src, pos)
        if not m:
            raise ParseError(f"cannot tokenize at {pos}: {src[pos:pos+30]!r}")
        k = m.lastgroup
        if k not in ("ws", "lcomment", "bcomment"):
            out.append(Tok(k, m.group(k), pos))
        pos = m.end()
    return out


# ---------------------------------------------------------------------------------------------- AST
class N:
    """AST node: kind + fields."""

    def __init__(self, kind, **kw):
        self.kind = kind
        self.__dict__.update(kw)

    def __repr__(self):
        return "N(" + self.kind + ", " + ", ".join(f"{k}={v!r}" for k, v in self.__dict__.items() if k != "kind") + ")"


BINOP_PREC = {
    "||": 1, "&&": 2,
    "==": 3, "!=": 3, "<": 3, ">": 3, "<=": 3, ">=": 3,
    "|": 4, "^": 5, "&": 6, "<<": 7, ">>": 7,
    "+": 8, "-": 8, "*": 9, "/": 9, "%": 9,
}
ASSIGN_OPS = {"=", "+=", "-=", "*=", "/=", "%=", "^=", "&=", "|=", "<<=", ">>="}


class Parser:
    def __init__(self, toks):
        self.t = toks
        self.i = 0

    # -- helpers
    def peek(self, k=0):
        j = self.i + k
        return self.t[j] if j < len(self.t) else Tok("eof", "", -1)

    def at(self, val, k=0):
        p = self.peek(k)
        return p.val == val and p.kind in ("punct", "ident")

    def eat(self, val):
        if not self.at(val):
            raise ParseError(f"expected {val!r}, found {self.peek()!r} (token {self.i})")
        self.i += 1

    def accept(self, val):
        if self.at(val):
            self.i += 1
            return True
        return False

    def ident(self):
        p = self.peek()
        if p.kind != "ident":
            raise ParseError(f"expected identifier, found {p!r}")
        self.i += 1
        return p.val

    # -- types (kept as token text; generics are skipped by bracket matching)
    def type_text(self, stop=(",", ")", "=", ";", "{", ">", "where")):
        depth, parts = 0, []
        while True:
            p = self.peek()
            if p.kind == "eof":
                break
            if depth == 0 and p.val in stop and p.kind in ("punct", "ident"):
                break
            if p.val in ("<", "(", "["):
                depth += 1
            elif p.val in (">", ")", "]"):
                depth -= 1
            elif p.val == "->" :
                pass
            parts.append(p.val)
            self.i += 1
        return " ".join(parts)

    # -- patterns
    def pattern(self):
        if self.accept("_"):
            return N("pwild")
        if self.accept("&"):
            self.accept("mut")
            return self.pattern()
        if self.accept("("):
            items = []
            while not self.at(")"):
                items.append(self.pattern())
                if not self.accept(","):
                    break
            self.eat(")")
            return N("ptuple", items=items)
        if self.peek().kind == "num":
            v = self.peek().val
            self.i += 1
            return N("plit", val=v)
        if self.at("ref"):
            self.i += 1
        mut = self.accept("mut")
        name = self.ident()
        path = [name]
        while self.at("::"):
            self.i += 1
            path.append(self.ident())
        if self.accept("("):
            items = []
            while not self.at(")"):
                items.append(self.pattern())
                if not self.accept(","):
                    break
            self.eat(")")
            return N("pctor", path=path, items=items)
        if len(path) > 1 or path[0] in ("None",):
            return N("pctor", path=path, items=[])
        return N("pident", name=name, mut=mut)

    # -- blocks and statements
    def block(self):
        self.eat("{")
        stmts = []
        tail = None
        while not self.at("}"):
            if self.accept(";"):
                continue
            s = self.statement()
            if s.kind == "sexpr" and not s.semi:
                # expression without semicolon: tail if last, else a block-like statement
                if self.at("}"):
                    tail = s.e
                    break
                if s.e.kind in ("if", "iflet", "match", "while", "loop", "for", "block", "unsafe"):
                    stmts.append(s)
                    continue
                raise ParseError(f"expression statement without ';' before {self.peek()!r}")
            stmts.append(s)
        self.eat("}")
        return N("block", stmts=stmts, tail=tail)

    def statement(self):
        if self.at("let"):
            self.i += 1
            pat = self.pattern()
            ty = None
            if self.accept(":"):
                ty = self.type_text(stop=("=", ";"))
            init = None
            if self.accept("="):
                init = self.expr()
            self.eat(";")
            return N("let", pat=pat, ty=ty, init=init)
        e = self.expr(stmt=True)
        if self.peek().val in ASSIGN_OPS and self.peek().kind == "punct":
            op = self.peek().val
            self.i += 1
            rhs = self.expr()
            self.accept(";")
            return N("assign", lhs=e, op=op, rhs=rhs)
        semi = self.accept(";")
        return N("sexpr", e=e, semi=semi)

    # -- expressions
    def expr(self, stmt=False, nostruct=False):
        return self.binary(0, stmt, nostruct)

    def binary(self, minprec, stmt, nostruct):
        lhs = self.unary(stmt, nostruct)
        if stmt and lhs.kind in ("if", "iflet", "match", "while", "loop", "for", "block", "unsafe"):
            # block-like expression in statement position ends the expression
            if not self.at("."):
                return lhs
        while True:
            p = self.peek()
            if self.at("as"):
                self.i += 1
                ty = self.type_text(stop=(",", ")", ";", "{", "}", "]", "==", "!=", "<", ">", "<=", ">=", "&&", "||", "+", "-", "*", "/", "%", "=>", "as", "=", "?", "."))
                lhs = N("cast", e=lhs, ty=ty)
                continue
            if p.kind == "punct" and p.val in BINOP_PREC and BINOP_PREC[p.val] > minprec:
                op = p.val
                self.i += 1
                rhs = self.binary(BINOP_PREC[op], False, nostruct)
                lhs = N("bin", op=op, l=lhs, r=rhs)
                continue
            if p.kind == "punct" and p.val in ("..", "..=") and minprec == 0:
                self.i += 1
                hi = None
                if not (self.at(")") or self.at("]") or self.at("{") or self.at(";") or self.at(",")):
                    hi = self.binary(1, False, nostruct)
                lhs = N("range", lo=lhs, hi=hi, incl=(p.val == "..="))
                continue
            return lhs

    def unary(self, stmt, nostruct):
        if self.at("..") or self.at("..="):
            incl = self.peek().val == "..="
            self.i += 1
            hi = None
            if not (self.at(")") or self.at("]") or self.at("{") or self.at(";") or self.at(",")):
                hi = self.binary(1, False, nostruct)
            return N("range", lo=None, hi=hi, incl=incl)
        if self.accept("!"):
            return N("un", op="!", e=self.unary(False, nostruct))
        if self.accept("-"):
            return N("un", op="-", e=self.unary(False, nostruct))
        if self.accept("*"):
            return N("deref", e=self.unary(False, nostruct))
        if self.at("&&"):
            self.i += 1
            mut = self.accept("mut")
            return N("ref", mut=False, e=N("ref", mut=mut, e=self.unary(False, nostruct)))
        if self.accept("&"):
            mut = self.accept("mut")
            return N("ref", mut=mut, e=self.unary(False, nostruct))
        prim = self.primary(nostruct)
        if stmt and prim.kind in ("if", "iflet", "match", "while", "loop", "for", "block", "unsafe") and not self.at("."):
            return prim
        return self.postfix(prim, nostruct)

    def args(self, close=")"):
        out = []
        while not self.at(close):
            out.append(self.expr())
            if not self.accept(","):
                break
        self.eat(close)
        return out

    def postfix(self, e, nostruct):
        while True:
            if self.accept("."):
                p = self.peek()
                if p.kind == "num":
                    self.i += 1
                    e = N("tfield", e=e, idx=int(p.val))
                    continue
                if self.at("await"):
                    raise ParseError("await")
                name = self.ident()
                turbofish = None
                if self.at("::"):
                    self.i += 1
                    self.eat("<")
                    turbofish = self.type_text(stop=(">",))
                    self.eat(">")
                if self.accept("("):
                    e = N("mcall", recv=e, name=name, args=self.args(), turbofish=turbofish)
                else:
                    e = N("field", e=e, name=name)
                continue
            if self.accept("("):
                e = N("call", f=e, args=self.args())
                continue
            if self.accept("["):
                idx = self.expr()
                self.eat("]")
                e = N("index", e=e, idx=idx)
                continue
            if self.accept("?"):
                e = N("try", e=e)
                continue
            return e

    def primary(self, nostruct):
        p = self.peek()
        if p.kind == "num":
            self.i += 1
            m = re.match(r"(0x[0-9a-fA-F_]+|[0-9][0-9_]*(?:\.[0-9_]+)?)(.*)", p.val)
            txt = m.group(1).replace("_", "")
            return N("num", val=txt, suffix=m.group(2))
        if p.kind == "str":
            self.i += 1
            return N("str", val=p.val)
        if p.kind == "char":
            self.i += 1
            return N("chr", val=p.val)
        if self.accept("("):
            if self.accept(")"):
                return N("tuple", items=[])
            first = self.expr()
            if self.accept(")"):
                return N("paren", e=first)
            items = [first]
            while self.accept(","):
                if self.at(")"):
                    break
                items.append(self.expr())
            self.eat(")")
            return N("tuple", items=items)
        if self.accept("["):
            items = []
            if not self.at("]"):
                first = self.expr()
                if self.accept(";"):
                    n = self.expr()
                    self.eat("]")
                    return N("arrayrep", e=first, n=n)
                items.append(first)
                while self.accept(","):
                    if self.at("]"):
                        break
                    items.append(self.expr())
            self.eat("]")
            return N("array", items=items)
        if self.at("{"):
            return self.block()
        if self.at("unsafe"):
            self.i += 1
            b = self.block()
            return N("unsafe", body=b)
        if self.at("if"):
            return self.if_expr()
        if self.at("match"):
            self.i += 1
            scrut = self.expr(nostruct=True)
            self.eat("{")
            arms = []
            while not self.at("}"):
                pats = [self.pattern()]
                while self.accept("|"):
                    pats.append(self.pattern())
                guard = None
                if self.accept("if"):
                    guard = self.expr()
                self.eat("=>")
                body = self.expr()
                if self.peek().val in ASSIGN_OPS and self.peek().kind == "punct":
                    op = self.peek().val
                    self.i += 1
                    body = N("assign", lhs=body, op=op, rhs=self.expr())
                self.accept(",")
                arms.append((pats, guard, body))
            self.eat("}")
            return N("match", e=scrut, arms=arms)
        if self.at("while"):
            self.i += 1
            if self.at("let"):
                raise ParseError("while let")
            cond = self.expr(nostruct=True)
            body = self.block()
            return N("while", cond=cond, body=body)
        if self.at("loop"):
            self.i += 1
            return N("loop", body=self.block())
        if self.at("for"):
            self.i += 1
            pat = self.pattern()
            self.eat("in")
            it = self.expr(nostruct=True)
            body = self.block()
            return N("for", pat=pat, iter=it, body=body)
        if self.at("return"):
            self.i += 1
            e = None
            if not (self.at(";") or self.at("}") or self.at(",")):
                e = self.expr()
            return N("return", e=e)
        if self.at("break"):
            self.i += 1
            return N("break")
        if self.at("continue"):
            self.i += 1
            return N("continue")
        if self.at("|") or self.at("||") or self.at("move"):
            self.accept("move")
            params = []
            if self.accept("||"):
                pass
            else:
                self.eat("|")
                while not self.at("|"):
                    params.append(self.pattern())
                    if self.accept(":"):
                        self.type_text(stop=(",", "|"))
                    if not self.accept(","):
                        break
                self.eat("|")
            body = self.expr()
            return N("closure", params=params, body=body)
        if self.at("<") or self.at("$"):
            # qualified path `<T>::X` or macro variable `$name`
            if self.accept("<"):
                ty = self.type_text(stop=(">",))
                self.eat(">")
                path = ["<" + ty + ">"]
            else:
                self.i += 1
                path = ["$" + self.ident()]
            while self.at("::"):
                self.i += 1
                path.append(self.ident())
            return N("path", path=path, generics=None)
        if p.kind == "ident":
            path = [self.ident()]
            generics = None
            while self.at("::"):
                self.i += 1
                if self.at("<"):
                    self.i += 1
                    generics = self.type_text(stop=(">",))
                    self.eat(">")
                    continue
                path.append(self.ident())
            if self.at("!") and not self.at("!=") and self.peek(1).val in ("(", "[", "{"):
                # macro invocation: parse the arguments as expressions when possible
                self.i += 1
                open_ = self.peek().val
                close = {"(": ")", "[": "]", "{": "}"}[open_]
                self.i += 1
                start = self.i
                try:
                    a = self.args(close)
                    return N("macro", name=path[-1], args=a)
                except ParseError:
                    # skip to the matching close (format strings with named args etc.)
                    self.i = start
                    depth = 1
                    while depth:
                        v = self.peek().val
                        if self.peek().kind == "eof":
                            raise ParseError("unterminated macro")
                        if v in ("(", "[", "{"):
                            depth += 1
                        elif v in (")", "]", "}"):
                            depth -= 1
                        self.i += 1
                    return N("macro", name=path[-1], args=None)
            if self.at("{") and not nostruct and (path[-1][0].isupper()):
                # struct literal
                self.i += 1
                fields = []
                while not self.at("}"):
                    fname = self.ident()
                    if self.accept(":"):
                        fields.append((fname, self.expr()))
                    else:
                        fields.append((fname, N("path", path=[fname], generics=None)))
                    if not self.accept(","):
                        break
                self.eat("}")
                return N("struct", path=path, fields=fields)
            return N("path", path=path, generics=generics)
        raise ParseError(f"unexpected token {p!r} at {self.i}")

    def if_expr(self):
        self.eat("if")
        if self.at("let"):
            self.i += 1
            pat = self.pattern()
            self.eat("=")
            e = self.expr(nostruct=True)
            then = self.block()
            els = None
            if self.accept("else"):
                els = self.if_expr() if self.at("if") else self.block()
            return N("iflet", pat=pat, e=e, then=then, els=els)
        cond = self.expr(nostruct=True)
        then = self.block()
        els = None
        if self.accept("else"):
            els = self.if_expr() if self.at("if") else self.block()
        return N("if", cond=cond, then=then, els=els)


# -------------------------------------------------------------------------------------- item scanning
class Fn:
    def __init__(self, name, params, ret, body, self_kind, owner, src_line):
        self.name, self.params, self.ret, self.body = name, params, ret, body
        self.self_kind = self_kind      # None | "ref" | "mut" | "value"
        self.owner = owner              # enclosing `impl ... Type` / macro name (text), best effort
        self.src_line = src_line


def strip_tests(src):
    i = src.find("#[cfg(test)]")
    return src if i < 0 else src[:i]


def scan_functions(src):
    """All `fn` items of a source file (also inside macro_rules bodies and impl blocks), in order."""
    src = strip_tests(src)
    toks = lex(src)
    fns = []
    owners = []     # stack of (depth, text)
    depth = 0
    i = 0
    n = len(toks)
    while i < n:
        t = toks[i]
        if t.kind == "punct" and t.val == "{":
            depth += 1
        elif t.kind == "punct" and t.val == "}":
            depth -= 1
            while owners and owners[-1][0] > depth:
                owners.pop()
        elif t.kind == "ident" and t.val in ("impl", "macro_rules") :
            # owner text up to the opening brace
            j = i
            txt = []
            while j < n and not (toks[j].kind == "punct" and toks[j].val == "{"):
                txt.append(toks[j].val)
                j += 1
            owners.append((depth + 1, " ".join(txt)))
            i = j
            continue
        elif t.kind == "ident" and t.val == "fn" and i + 1 < n and toks[i + 1].kind == "ident":
            name = toks[i + 1].val
            p = Parser(toks)
            p.i = i + 2
            if p.at("<"):
                p.i += 1
                p.type_text(stop=(">",))
                p.eat(">")
            p.eat("(")
            params = []
            self_kind = None
            while not p.at(")"):
                if p.at("&") and (p.peek(1).val == "self" or (p.peek(1).val == "mut" and p.peek(2).val == "self") or (p.peek(1).kind == "lifetime")):
                    p.i += 1
                    if p.peek().kind == "lifetime":
                        p.i += 1
                    if p.accept("mut"):
                        self_kind = "mut"
                    else:
                        self_kind = "ref"
                    p.eat("self")
                elif p.at("self") or (p.at("mut") and p.peek(1).val == "self"):
                    p.accept("mut")
                    p.eat("self")
                    self_kind = "value"
                else:
                    p.accept("mut")
                    pn = p.ident()
                    p.eat(":")
                    ty = p.type_text(stop=(",", ")"))
                    params.append((pn, ty))
                if not p.accept(","):
                    break
            p.eat(")")
            ret = None
            if p.accept("->"):
                ret = p.type_text(stop=("{", "where", ";"))
            if p.at("where"):
                while not p.at("{") and not p.at(";"):
                    p.i += 1
            if p.at(";"):
                i = p.i + 1
                continue
            line = src.count("\n", 0, t.pos) + 1
            start = p.i
            try:
                body = p.block()
                err = None
            except ParseError as ex:
                body, err = None, str(ex)
                # skip the body by brace matching
                p.i = start
                d = 0
                while True:
                    v = p.peek()
                    if v.kind == "eof":
                        break
                    if v.kind == "punct" and v.val == "{":
                        d += 1
                    elif v.kind == "punct" and v.val == "}":
                        d -= 1
                        if d == 0:
                            p.i += 1
                            break
                    p.i += 1
            f = Fn(name, params, ret, body, self_kind, owners[-1][1] if owners else "", line)
            f.error = err
            fns.append(f)
            i = p.i
            continue
        i += 1
    return fns


if __name__ == "__main__":
    import sys
    for path in sys.argv[1:]:
        for f in scan_functions(open(path).read()):
            print(f"{path}:{f.src_line} fn {f.name} self={f.self_kind} params={f.params} ret={f.ret} owner={f.owner[:50]!r} {'ERROR ' + f.error if f.error else 'ok'}")
