#!/usr/bin/env python3
"""For every seeded/<id>/: apply the patch to /repo (git apply), run the check(s), undo (git checkout -- .),
and record the verdicts in seeded/<id>/meta.json. Usage: run_seeded_inplace.py [ids...] [--props C01,C02]"""
import json, os, re, subprocess, sys
ROOT = os.path.dirname(os.path.dirname(os.path.abspath(__file__)))
ids = [a for a in sys.argv[1:] if not a.startswith("--")]
extra = []
for a in sys.argv[1:]:
    if a.startswith("--props="):
        extra = a.split("=", 1)[1].split(",")
if not ids:
    ids = sorted(os.listdir(os.path.join(ROOT, "seeded")))
for i in ids:
    d = os.path.join(ROOT, "seeded", i)
    if not os.path.isdir(d):
        continue
    am = json.load(open(os.path.join(d, "agent_meta.json")))
    prop = am.get("property", i[:3])
    props = [prop] + [p for p in extra if p != prop]
    assert subprocess.run(["git", "-C", "/repo", "status", "--porcelain"], capture_output=True, text=True).stdout == "", "/repo not clean"
    subprocess.run(["git", "-C", "/repo", "apply", os.path.join(d, "patch.diff")], check=True)
    verdicts = {}
    try:
        for p in props:
            out = subprocess.run([os.path.join(ROOT, "check"), p], capture_output=True, text=True, cwd=ROOT, timeout=1800).stdout
            v = [l for l in out.splitlines() if l.startswith("VIOLATION")]
            first = [l.strip()[2:] for l in out.splitlines() if l.startswith("  - ")][:1]
            verdicts[p] = {"alarm": bool(v), "concrete_input": bool(v) and not v[0].endswith("no-failing-input-found"), "first": (first[0][:300] if first else "")}
            if v:
                m = re.search(r"replay=(\S+)", v[0])
                if m and os.path.exists(m.group(1)) and p == prop:
                    lines = open(m.group(1)).read().splitlines()
                    verdicts[p]["replay_head"] = [l[:200] for l in lines[:14]]
    finally:
        subprocess.run(["git", "-C", "/repo", "checkout", "--", "."], check=True)
    meta = {
        "id": i, "property": prop, "title": am.get("title"), "mechanism": am.get("mechanism"), "needs": am.get("needs"),
        "origin": "written by an independent sub-agent that saw only the property text and a scratch worktree of /repo",
        "confirmed": "tools/verify_seeded.sh: patch applies; with it the 34 existing tests pass and demo.rs (as tests/demo.rs) fails; without it demo.rs passes",
        "ran": [f"git -C /repo apply seeded/{i}/patch.diff; ./check {p}; git -C /repo checkout -- ." for p in props],
        "verdicts": verdicts,
    }
    old = {}
    mp = os.path.join(d, "meta.json")
    if os.path.exists(mp):
        old = json.load(open(mp))
        old.get("verdicts", {}).update(verdicts)
        meta["verdicts"] = old["verdicts"]
        for k in ("history",):
            if k in old:
                meta[k] = old[k]
    json.dump(meta, open(mp, "w"), indent=1)
    print(i, {p: ("ALARM" + ("" if v["concrete_input"] else "(no input)")) if v["alarm"] else "miss" for p, v in verdicts.items()}, flush=True)
