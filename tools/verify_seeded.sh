#!/bin/sh
# usage: verify_seeded.sh <dir with patch.diff demo.rs meta.json>
# Confirms in a scratch worktree: patch applies; with patch the 34 existing tests pass and the demo fails;
# without the patch the demo passes. Prints one line: CONFIRMED / REJECTED <why>.
d=$1
wt=/tmp/mut/verify_$$
git -C /repo worktree add --detach $wt HEAD -q || exit 2
cd $wt
res=CONFIRMED
if ! git apply --check $d/patch.diff 2>/dev/null; then res="REJECTED patch does not apply"; fi
if [ "$res" = CONFIRMED ]; then
  mkdir -p tests && cp $d/demo.rs tests/demo.rs
  if ! CARGO_NET_OFFLINE=true cargo test --offline --test demo >/tmp/mut/v_clean_$$.log 2>&1; then res="REJECTED demo fails on the unmodified crate"; fi
fi
if [ "$res" = CONFIRMED ]; then
  git apply $d/patch.diff
  if ! CARGO_NET_OFFLINE=true cargo test --offline --lib >/tmp/mut/v_lib_$$.log 2>&1; then res="REJECTED existing tests fail with the patch"; fi
  n=$(grep -E '^test result: ok\. 34 passed' /tmp/mut/v_lib_$$.log | wc -l)
  [ "$res" = CONFIRMED ] && [ "$n" != 1 ] && res="REJECTED existing tests: not 34 passed"
  if [ "$res" = CONFIRMED ] && CARGO_NET_OFFLINE=true cargo test --offline --test demo >/tmp/mut/v_mut_$$.log 2>&1; then res="REJECTED demo passes with the patch"; fi
fi
cd /
git -C /repo worktree remove --force $wt
rm -f /tmp/mut/v_*_$$.log
echo "$res $d"
