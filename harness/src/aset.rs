//! Array sets (four prefix widths) behind the exploration engine.

use crate::engine::*;
use crate::nums::*;
use crate::util::*;
use std::collections::BTreeMap;
use std::marker::PhantomData;
use std::ops::Deref;
use stevia::collections::*;

impl Num for Keyed {
    const SIZE: usize = 8;
    const ALIGN: usize = 4;
    const SIGNED: bool = false;
    const NAME: &'static str = "keyed";
    fn from_i(i: i128) -> Self {
        Keyed { key: (i & 0xffff_ffff) as u32, payload: ((i >> 32) & 0xffff_ffff) as u32 }
    }
    fn to_i(self) -> i128 {
        (self.key as i128) | ((self.payload as i128) << 32)
    }
}

pub trait AApi {
    const PW: usize;
    const KEY_BYTES: usize;
    fn label() -> String;
    fn val() -> (usize, usize);
    fn call(bytes: &mut [u8], op: &Op) -> String;
    fn session(bytes: &mut [u8], ops: &[Op]) -> Vec<String>;
}

fn opt<T: ToString>(o: Option<T>) -> String {
    match o {
        Some(x) => format!("some {}", x.to_string()),
        None => "none".to_string(),
    }
}

macro_rules! aset_api {
    ($name:ident, $mut:ident, $ro:ident, $pw:expr, $V:ty, $kb:expr) => {
        pub struct $name;
        impl AApi for $name {
            const PW: usize = $pw;
            const KEY_BYTES: usize = $kb;
            fn label() -> String {
                format!("{}<{}>", stringify!($mut), <$V as Num>::NAME)
            }
            fn val() -> (usize, usize) {
                (<$V as Num>::SIZE, <$V as Num>::ALIGN)
            }
            fn session(bytes: &mut [u8], ops: &[Op]) -> Vec<String> {
                let mut s = $mut::<$V>::from_bytes_mut(bytes);
                let mut out = vec![];
                for op in ops {
                    let v = |i: usize| <$V as Num>::from_i(op.args[i]);
                    out.push(match op.name {
                        "ins" => s.insert(v(0)).to_string(),
                        "rem" => s.remove(&v(0)).to_string(),
                        "take" => opt(s.take(&v(0)).map(|x| x.to_i())),
                        "get" | "rget" => opt(s.get(&v(0)).map(|x| x.to_i())),
                        "gmq" => opt(s.get_mut(&v(0)).map(|x| x.to_i())),
                        "has" | "rhas" => s.contains(&v(0)).to_string(),
                        "upd" => match s.get_mut(&v(0)) {
                            Some(r) => {
                                *r = v(1);
                                "true".to_string()
                            }
                            None => "false".to_string(),
                        },
                        "len" | "rlen" => s.len().to_string(),
                        "full" | "rfull" => s.is_full().to_string(),
                        "empty" | "rempty" => s.is_empty().to_string(),
                        "view" | "rview" => format!("[{}]", s.deref().iter().map(|x| x.to_i().to_string()).collect::<Vec<_>>().join(",")),
                        other => panic!("op {other} not possible in a session"),
                    });
                }
                out
            }
            fn call(bytes: &mut [u8], op: &Op) -> String {
                let v = |i: usize| <$V as Num>::from_i(op.args[i]);
                let list = |s: &[$V]| format!("[{}]", s.iter().map(|x| x.to_i().to_string()).collect::<Vec<_>>().join(","));
                match op.name {
                    "open" => {
                        let _s = $mut::<$V>::from_bytes_mut(bytes);
                        "-".into()
                    }
                    "ins" => $mut::<$V>::from_bytes_mut(bytes).insert(v(0)).to_string(),
                    "rem" => $mut::<$V>::from_bytes_mut(bytes).remove(&v(0)).to_string(),
                    "take" => opt($mut::<$V>::from_bytes_mut(bytes).take(&v(0)).map(|x| x.to_i())),
                    "get" => opt($mut::<$V>::from_bytes_mut(bytes).get(&v(0)).map(|x| x.to_i())),
                    "gmq" => opt($mut::<$V>::from_bytes_mut(bytes).get_mut(&v(0)).map(|x| x.to_i())),
                    "has" => $mut::<$V>::from_bytes_mut(bytes).contains(&v(0)).to_string(),
                    "upd" => {
                        let mut s = $mut::<$V>::from_bytes_mut(bytes);
                        match s.get_mut(&v(0)) {
                            Some(r) => {
                                *r = v(1);
                                "true".into()
                            }
                            None => "false".into(),
                        }
                    }
                    "len" => $mut::<$V>::from_bytes_mut(bytes).len().to_string(),
                    "bulk" => {
                        let mut s = $mut::<$V>::from_bytes_mut(bytes);
                        let mut n = 0usize;
                        for j in 0..op.args[1] {
                            if s.insert(<$V as Num>::from_i(op.args[0] + j)) {
                                n += 1;
                            }
                        }
                        n.to_string()
                    }
                    "bulkrem" => {
                        let mut s = $mut::<$V>::from_bytes_mut(bytes);
                        let mut n = 0usize;
                        for j in 0..op.args[1] {
                            if s.remove(&<$V as Num>::from_i(op.args[0] + j)) {
                                n += 1;
                            }
                        }
                        n.to_string()
                    }
                    "full" => $mut::<$V>::from_bytes_mut(bytes).is_full().to_string(),
                    "empty" => $mut::<$V>::from_bytes_mut(bytes).is_empty().to_string(),
                    "view" => list($mut::<$V>::from_bytes_mut(bytes).deref()),
                    "rget" => opt($ro::<$V>::from_bytes(bytes).get(&v(0)).map(|x| x.to_i())),
                    "rhas" => $ro::<$V>::from_bytes(bytes).contains(&v(0)).to_string(),
                    "rlen" => $ro::<$V>::from_bytes(bytes).len().to_string(),
                    "rfull" => $ro::<$V>::from_bytes(bytes).is_full().to_string(),
                    "rempty" => $ro::<$V>::from_bytes(bytes).is_empty().to_string(),
                    "rview" => list($ro::<$V>::from_bytes(bytes).deref()),
                    "fill" => {
                        let skew = (bytes.as_ptr() as usize) % 16;
                        let mut copy = ABuf::new_skewed(bytes, 1, 0x77, skew);
                        let mut n = 0usize;
                        let mut s = $mut::<$V>::from_bytes_mut(copy.bytes_mut());
                        let mut j = 0i128;
                        while j < op.args[1] {
                            if !s.insert(<$V as Num>::from_i(op.args[0] + j)) {
                                break;
                            }
                            n += 1;
                            j += 1;
                        }
                        n.to_string()
                    }
                    other => panic!("unknown op {other}"),
                }
            }
        }
    };
}

aset_api!(A8u8, U8ArraySetMut, U8ArraySet, 1, u8, 1);
aset_api!(A8u16, U8ArraySetMut, U8ArraySet, 1, u16, 2);
aset_api!(A8u64, U8ArraySetMut, U8ArraySet, 1, u64, 8);
aset_api!(A8log, U8ArraySetMut, U8ArraySet, 1, LogKey, 8);
aset_api!(A16u8, U16ArraySetMut, U16ArraySet, 2, u8, 1);
aset_api!(A16u32, U16ArraySetMut, U16ArraySet, 2, u32, 4);
aset_api!(A16keyed, U16ArraySetMut, U16ArraySet, 2, Keyed, 4);
aset_api!(A16log, U16ArraySetMut, U16ArraySet, 2, LogKey, 8);
aset_api!(A32u64, U32ArraySetMut, U32ArraySet, 4, u64, 8);
aset_api!(A32u16, U32ArraySetMut, U32ArraySet, 4, u16, 2);
aset_api!(A32keyed, U32ArraySetMut, U32ArraySet, 4, Keyed, 4);
aset_api!(A64u8, U64ArraySetMut, U64ArraySet, 8, u8, 1);
aset_api!(A64u64, U64ArraySetMut, U64ArraySet, 8, u64, 8);
aset_api!(A8b3, U8ArraySetMut, U8ArraySet, 1, B3, 3);
aset_api!(A16b12, U16ArraySetMut, U16ArraySet, 2, B12, 12);

fn le(bytes: &[u8]) -> u128 {
    let mut x = 0u128;
    for (i, b) in bytes.iter().enumerate() {
        x |= (*b as u128) << (8 * i);
    }
    x
}

pub struct ADecoded {
    pub len: usize,
    pub vals: Vec<i128>,
}

pub fn adecode<A: AApi>(bytes: &[u8]) -> ADecoded {
    let (vs, _) = A::val();
    let len = le(&bytes[..A::PW]) as usize;
    let n = (bytes.len() - A::PW) / vs;
    let vals = (0..n).map(|j| le(&bytes[A::PW + j * vs..A::PW + (j + 1) * vs]) as i128).collect();
    ADecoded { len, vals }
}

pub struct ASut<A: AApi> {
    pub slots: usize,
    pub max_slots: usize,
    pub vals: Vec<i128>,
    /// payload variants (for keyed values): insert uses payload 1, update writes payload 2
    pub updates: bool,
    pub fresh_base: i128,
    pub fill: bool,
    pub _p: PhantomData<A>,
}

impl<A: AApi> ASut<A> {
    fn key_of(v: i128) -> i128 {
        if A::KEY_BYTES >= 16 { v } else { v & ((1i128 << (8 * A::KEY_BYTES)) - 1) }
    }
    fn keyed() -> bool {
        A::KEY_BYTES < A::val().0
    }
    fn ins_val(&self, k: i128) -> i128 {
        if Self::keyed() { k | (1i128 << 32) } else { k }
    }
    fn upd_val(&self, k: i128) -> i128 {
        if Self::keyed() { k | (2i128 << 32) } else { k }
    }
    pub fn parse(&self, l: &str) -> Option<Op> {
        let mut it = l.split_whitespace();
        let name = it.next()?;
        const NAMES: &[&str] = &[
            "open", "ext", "ins", "rem", "take", "get", "gmq", "has", "upd", "len", "full", "empty", "view", "rget", "rhas", "rlen", "rfull", "rempty", "rview", "fill", "bulk", "bulkrem",
        ];
        let n = NAMES.iter().find(|n| **n == name)?;
        Some(Op { name: n, args: it.filter_map(|a| a.parse().ok()).collect(), blob: None })
    }
    /// What the API itself reports (read-only view on a private copy): the slice view and `len`.
    fn api_view(&self, state: &[u8]) -> Option<(Vec<i128>, usize)> {
        let mut copy = ABuf::new_skewed(state, 2, 0x11, self.skew());
        guarded(|| {
            let v = A::call(copy.bytes_mut(), &Op::new("rview", &[]));
            let items: Vec<i128> = v.trim_matches(|c| c == '[' || c == ']').split(',').filter(|s| !s.is_empty()).map(|s| s.parse().unwrap()).collect();
            let len: usize = A::call(copy.bytes_mut(), &Op::new("rlen", &[])).parse().unwrap();
            (items, len)
        })
        .ok()
    }
    fn prefix_max() -> usize {
        if A::PW >= 8 { usize::MAX } else { (1usize << (8 * A::PW)) - 1 }
    }
}

impl<A: AApi> Sut for ASut<A> {
    fn cfg_line(&self) -> String {
        let (vs, va) = A::val();
        format!("cfg aset pw={} vsz={} val={} kb={} label={}", A::PW, vs, va, A::KEY_BYTES, A::label())
    }
    fn name(&self) -> String {
        format!("{} slots={} max_slots={} values={:?}", A::label(), self.slots, self.max_slots, self.vals)
    }
    fn initial(&self) -> Vec<u8> {
        vec![0u8; A::PW + self.slots * A::val().0]
    }
    fn init_op(&self) -> Option<Op> {
        None
    }
    fn skew(&self) -> usize {
        let al = A::val().1;
        (al - A::PW % al) % al
    }
    fn alt_skew(&self) -> usize {
        // both the prefix and the values must stay aligned: step by the larger of the two alignments
        (self.skew() + A::val().1.max(A::PW)) % 16
    }
    fn ops(&self, state: &[u8]) -> Vec<Op> {
        let d = adecode::<A>(state);
        let mut v = vec![];
        for x in &self.vals {
            v.push(Op::new("ins", &[self.ins_val(*x)]));
            if Self::keyed() {
                // a duplicate insert that carries a different payload
                v.push(Op::new("ins", &[*x | (3i128 << 32)]));
            }
            v.push(Op::new("rem", &[*x]));
            v.push(Op::new("take", &[*x]));
            v.push(Op::new("get", &[*x]));
            v.push(Op::new("rget", &[*x]));
            v.push(Op::new("gmq", &[*x]));
            v.push(Op::new("has", &[*x]));
            v.push(Op::new("rhas", &[*x]));
            if self.updates {
                v.push(Op::new("upd", &[*x, self.upd_val(*x)]));
            }
        }
        for n in ["len", "full", "empty", "view", "rlen", "rfull", "rempty", "rview", "open"] {
            v.push(Op::new(n, &[]));
        }
        if self.fill {
            v.push(Op::new("fill", &[self.fresh_base, (d.vals.len() + 2) as i128]));
        }
        if d.vals.len() < self.max_slots {
            v.push(Op::new("ext", &[1]));
        }
        v
    }
    fn random_op(&self, rng: &mut Rng, state: &[u8], phase: usize) -> Op {
        let d = adecode::<A>(state);
        let x = self.vals[rng.below(self.vals.len() as u64) as usize];
        let r = rng.below(100);
        let fullish = d.len * 10 >= d.vals.len() * 8;
        let ins_p = match phase {
            0 => 68,
            2 => 12,
            _ => if fullish { 35 } else { 55 },
        };
        if r < ins_p {
            Op::new("ins", &[if Self::keyed() && rng.chance(1, 3) { x | (3i128 << 32) } else { self.ins_val(x) }])
        } else if r < 70 {
            Op::new("rem", &[x])
        } else if r < 80 {
            Op::new("take", &[x])
        } else if r < 84 && self.updates {
            Op::new("upd", &[x, self.upd_val(x)])
        } else if r < 88 {
            Op::new("get", &[x])
        } else if r < 91 {
            Op::new("rget", &[x])
        } else if r < 93 {
            Op::new("has", &[x])
        } else if r < 95 {
            Op::new("view", &[])
        } else if r < 96 {
            Op::new("rview", &[])
        } else if r < 97 {
            Op::new("full", &[])
        } else if r < 98 && self.fill {
            Op::new("fill", &[self.fresh_base, (d.vals.len() + 2) as i128])
        } else if d.vals.len() < self.max_slots {
            Op::new("ext", &[1 + rng.below(3) as i128])
        } else {
            Op::new("len", &[])
        }
    }
    fn kind(&self, op: &Op) -> Kind {
        match op.name {
            "ins" | "rem" | "take" | "upd" | "ext" | "bulk" | "bulkrem" => Kind::Mutating,
            _ => Kind::Query,
        }
    }
    fn refused(&self, op: &Op, out: &OpOut) -> bool {
        match op.name {
            "ins" | "rem" | "upd" => out.result == "false",
            "take" => out.result == "none",
            _ => false,
        }
    }
    fn sessionable(&self, op: &Op) -> bool {
        !matches!(op.name, "ext" | "open" | "fill" | "bulk" | "bulkrem")
    }
    fn session(&self, buf: &mut ABuf, ops: &[Op]) -> Option<Vec<String>> {
        take_log();
        let r = guarded(|| A::session(buf.bytes_mut(), ops)).ok();
        take_log();
        r
    }
    fn apply(&self, buf: &mut ABuf, op: &Op) -> OpOut {
        if op.name == "ext" {
            buf.extend_zero(op.args[0] as usize * A::val().0);
            return OpOut { result: "-".into(), ..Default::default() };
        }
        take_log();
        let r = guarded(|| A::call(buf.bytes_mut(), op));
        let log = take_log();
        let trace = log.iter().map(|(c, k)| format!("{c}{k}")).collect::<Vec<_>>().join(",");
        match r {
            Ok(s) => OpOut { result: s, trace, panic: None },
            Err((kind, msg)) => OpOut { result: format!("fault {kind}"), trace, panic: Some(msg) },
        }
    }
    fn oracle(&self, pre: &[u8], op: &Op, out: &OpOut, post: &[u8]) -> Vec<Finding> {
        let mut f = vec![];
        let prop = if op.name == "ext" { "C08" } else { "C03" };
        if out.panic.is_some() {
            f.push(Finding { property: prop, what: format!("`{}` panicked instead of answering: {}", op.text(), out.panic.clone().unwrap()) });
            return f;
        }
        let dp = adecode::<A>(pre);
        let dq = adecode::<A>(post);
        if dq.len > dq.vals.len() {
            f.push(Finding { property: "C10", what: format!("after `{}` the count {} exceeds the {} slots", op.text(), dq.len, dq.vals.len()) });
            return f;
        }
        if dp.len > dp.vals.len() {
            return f;
        }
        let Some((view_p, _)) = self.api_view(pre) else { return f };
        let Some((view_q, qlen)) = self.api_view(post) else {
            f.push(Finding { property: prop, what: format!("after `{}` the slice view panics", op.text()) });
            f.push(Finding { property: "C04", what: format!("after `{}` the read-only view of the bytes panics", op.text()) });
            return f;
        };
        // C04: the mutable view of the same bytes shows the same slice
        {
            let mut copy = ABuf::new_skewed(post, 1, 0x22, self.skew());
            // ... and the same answers to every parameterless query (is_full, is_empty)
            let flags = guarded(|| {
                let q = |n: &'static str, c: &mut ABuf| A::call(c.bytes_mut(), &Op::new(n, &[]));
                let mut c2 = ABuf::new_skewed(post, 1, 0x22, self.skew());
                ((q("full", &mut c2), q("empty", &mut c2)), (q("rfull", &mut c2), q("rempty", &mut c2)))
            });
            match flags {
                Ok((mu, ro)) => {
                    if mu != ro {
                        f.push(Finding { property: "C04", what: format!("after `{}` the mutable view answers (is_full, is_empty) = {:?} but the read-only view of the same bytes answers {:?}", op.text(), mu, ro) });
                    }
                }
                Err(_) => f.push(Finding { property: "C04", what: format!("after `{}` is_full/is_empty panics on one of the views", op.text()) }),
            }
            match guarded(|| (A::call(copy.bytes_mut(), &Op::new("view", &[])), A::call(copy.bytes_mut(), &Op::new("len", &[])))) {
                Ok((v2, l2)) => {
                    let want = format!("[{}]", view_q.iter().map(|x| x.to_string()).collect::<Vec<_>>().join(","));
                    if v2 != want || l2 != qlen.to_string() {
                        f.push(Finding { property: "C04", what: format!("after `{}` the mutable view shows {} (len {}) but the read-only view of the same bytes shows {} (len {})", op.text(), v2, l2, want, qlen) });
                    }
                    if copy.bytes() != post {
                        f.push(Finding { property: "C04", what: format!("after `{}` re-opening the buffer mutably changed bytes", op.text()) });
                    }
                }
                Err(_) => f.push(Finding { property: "C04", what: format!("after `{}` the mutable view of the bytes panics", op.text()) }),
            }
        }
        // C10: the bytes are the count followed by the ascending values the API shows
        if dq.vals[..dq.len] != view_q[..] || qlen != dq.len {
            f.push(Finding { property: "C10", what: format!("after `{}` the bytes hold {:?} (count {}) but the slice view is {:?}", op.text(), &dq.vals[..dq.len], dq.len, view_q) });
        }
        // C03: the view is strictly ascending
        for w in view_q.windows(2) {
            if !(Self::key_of(w[0]) < Self::key_of(w[1])) {
                f.push(Finding { property: "C03", what: format!("after `{}` the slice view is not strictly ascending: {:?}", op.text(), view_q) });
                break;
            }
        }
        let m: BTreeMap<i128, i128> = view_p.iter().map(|v| (Self::key_of(*v), *v)).collect();
        let q: BTreeMap<i128, i128> = view_q.iter().map(|v| (Self::key_of(*v), *v)).collect();
        let mut exp = m.clone();
        let bound = dp.vals.len().min(Self::prefix_max());
        let x = op.args.first().copied().unwrap_or(0);
        let k = Self::key_of(x);
        let list = |m: &BTreeMap<i128, i128>| format!("[{}]", m.values().map(|v| v.to_string()).collect::<Vec<_>>().join(","));
        let expected: Option<String> = match op.name {
            "ins" => {
                if m.contains_key(&k) || m.len() >= bound {
                    Some("false".into())
                } else {
                    exp.insert(k, x);
                    Some("true".into())
                }
            }
            "rem" => Some(exp.remove(&k).is_some().to_string()),
            "take" => Some(opt(exp.remove(&k))),
            "get" | "rget" | "gmq" => Some(opt(m.get(&k).copied())),
            "has" | "rhas" => Some(m.contains_key(&k).to_string()),
            "upd" => {
                if let Some(v) = exp.get_mut(&k) {
                    *v = op.args[1];
                    Some("true".into())
                } else {
                    Some("false".into())
                }
            }
            "len" | "rlen" => Some(m.len().to_string()),
            "full" | "rfull" => Some((m.len() >= bound).to_string()),
            "empty" | "rempty" => Some(m.is_empty().to_string()),
            "view" | "rview" => Some(list(&m)),
            "bulk" => {
                // ascending fresh values: each is inserted until the bound is reached
                let fresh = (0..op.args[1]).filter(|j| !m.contains_key(&Self::key_of(op.args[0] + j))).count();
                let n = fresh.min(bound - m.len());
                for j in 0..op.args[1] {
                    if exp.len() < bound && !exp.contains_key(&Self::key_of(op.args[0] + j)) {
                        exp.insert(Self::key_of(op.args[0] + j), op.args[0] + j);
                    }
                }
                Some(n.to_string())
            }
            "bulkrem" => {
                let mut n = 0;
                for j in 0..op.args[1] {
                    if exp.remove(&Self::key_of(op.args[0] + j)).is_some() {
                        n += 1;
                    }
                }
                Some(n.to_string())
            }
            "fill" => {
                let mut n = 0usize;
                while n < bound - m.len() && (n as i128) < op.args[1] && !m.contains_key(&Self::key_of(op.args[0] + n as i128)) {
                    n += 1;
                }
                Some(n.to_string())
            }
            _ => None,
        };
        if let Some(e) = expected {
            if e != out.result {
                f.push(Finding { property: prop, what: format!("`{}` returned {} but the reference set gives {}", op.text(), out.result, e) });
            }
        }
        if q != exp {
            f.push(Finding { property: prop, what: format!("after `{}` the view is {:?}, the reference set has {:?}", op.text(), q.values().collect::<Vec<_>>(), exp.values().collect::<Vec<_>>()) });
        }
        if op.name == "ext" && dq.vals.len() != dp.vals.len() + op.args[0] as usize {
            f.push(Finding { property: "C08", what: "extension did not add exactly the new slots".into() });
        }
        if op.name == "open" && pre != post {
            f.push(Finding { property: "C04", what: "re-opening changed bytes".into() });
        }
        // C06: number of comparisons of a lookup
        if matches!(op.name, "get" | "rget" | "has" | "rhas" | "gmq") && !out.trace.is_empty() {
            let n = dp.len;
            let cmps = out.trace.split(',').filter(|s| !s.is_empty()).count();
            let bound = if n == 0 { 0 } else { (usize::BITS - (n as usize).leading_zeros()) as usize + 1 }; // ceil(log2(n+1)) + 1
            if cmps > bound {
                f.push(Finding { property: "C06", what: format!("`{}` on {} elements made {} comparisons (> {})", op.text(), n, cmps, bound) });
            }
        }
        f
    }
    fn classify(&self, pre: &[u8], op: &Op, out: &OpOut, _post: &[u8]) -> Vec<&'static str> {
        let mut c = vec![];
        let dp = adecode::<A>(pre);
        if dp.len > dp.vals.len() {
            return c;
        }
        let view = &dp.vals[..dp.len];
        let x = Self::key_of(op.args.first().copied().unwrap_or(0));
        match op.name {
            "ins" if out.result == "true" => {
                let pos = view.iter().filter(|v| Self::key_of(**v) < x).count();
                if pos == 0 { c.push("ins:at-front") } else if pos == view.len() { c.push("ins:at-end") } else { c.push("ins:in-middle") }
                if dp.len + 1 == dp.vals.len() { c.push("ins:fills-last-slot") }
            }
            "ins" => {
                if view.iter().any(|v| Self::key_of(*v) == x) { c.push("ins:duplicate") } else { c.push("ins:full") }
            }
            "rem" | "take" => match view.iter().position(|v| Self::key_of(*v) == x) {
                None => c.push("take:absent"),
                Some(0) if view.len() == 1 => c.push("take:only"),
                Some(0) => c.push("take:first"),
                Some(p) if p + 1 == view.len() => c.push("take:last"),
                Some(_) => c.push("take:middle"),
            },
            _ => {}
        }
        c
    }
    fn record_bytes(&self) -> Option<usize> {
        Some(A::val().0)
    }
    fn nontrivial(&self, state: &[u8]) -> bool {
        let d = adecode::<A>(state);
        d.len >= 2 && d.len < d.vals.len()
    }
}
