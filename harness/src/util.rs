//! Shared plumbing: guarded, relocatable, aligned buffers; PRNG; hex; panic capture.

use std::cell::RefCell;
use std::panic::{catch_unwind, AssertUnwindSafe};

pub const GUARD: usize = 64;

/// A byte buffer that lives inside a larger 16-byte aligned allocation, with
/// `GUARD` bytes of a known pattern on both sides, at a configurable offset
/// (multiple of 16) so the same contents can be placed at different addresses.
pub struct ABuf {
    backing: Vec<u128>,
    shift: usize,
    len: usize,
    pattern: u8,
    skew: usize,
}

impl ABuf {
    pub fn new(bytes: &[u8], shift16: usize, pattern: u8) -> Self {
        Self::new_skewed(bytes, shift16, pattern, 0)
    }
    /// `skew` (< 16) extra bytes of offset: the buffer starts at an address that
    /// is `skew` modulo 16 (array sets need the values, not the prefix, aligned).
    pub fn new_skewed(bytes: &[u8], shift16: usize, pattern: u8, skew: usize) -> Self {
        let shift = shift16 * 16 + skew;
        let total = GUARD + shift + bytes.len() + GUARD + 16;
        let words = total / 16 + 2;
        let mut b = ABuf { backing: vec![0u128; words], shift, len: bytes.len(), pattern, skew };
        b.all_mut().fill(pattern);
        // the last 16 bytes of the allocation are zero (not part of the guards): a runaway scan for a
        // NUL terminator stops inside the allocation instead of crashing the harness
        let n = b.all_mut().len();
        b.all_mut()[n - 16..].fill(0);
        b.bytes_mut().copy_from_slice(bytes);
        b
    }
    fn all_mut(&mut self) -> &mut [u8] {
        bytemuck::cast_slice_mut(&mut self.backing[..])
    }
    fn all(&self) -> &[u8] {
        bytemuck::cast_slice(&self.backing[..])
    }
    pub fn bytes(&self) -> &[u8] {
        let s = GUARD + self.shift;
        &self.all()[s..s + self.len]
    }
    pub fn bytes_mut(&mut self) -> &mut [u8] {
        let s = GUARD + self.shift;
        let l = self.len;
        &mut self.all_mut()[s..s + l]
    }
    /// Everything outside the buffer still holds the guard pattern.
    pub fn guards_ok(&self) -> bool {
        let s = GUARD + self.shift;
        let p = self.pattern;
        let all = self.all();
        let n = all.len();
        all[..s].iter().all(|b| *b == p) && all[s + self.len..n - 16].iter().all(|b| *b == p)
    }
    /// Extend the buffer at its end with `n` zero bytes (re-allocates).
    pub fn extend_zero(&mut self, n: usize) {
        let mut v = self.bytes().to_vec();
        v.extend(std::iter::repeat(0u8).take(n));
        *self = ABuf::new_skewed(&v, (self.shift - self.skew) / 16, self.pattern, self.skew);
    }
}

/// xorshift64* PRNG: every random choice of a run derives from one seed.
#[derive(Clone)]
pub struct Rng(pub u64);
impl Rng {
    pub fn new(seed: u64) -> Self {
        Rng(seed.wrapping_mul(0x9E3779B97F4A7C15) ^ 0xD1B54A32D192ED03 | 1)
    }
    pub fn next(&mut self) -> u64 {
        let mut x = self.0;
        x ^= x >> 12;
        x ^= x << 25;
        x ^= x >> 27;
        self.0 = x;
        x.wrapping_mul(0x2545F4914F6CDD1D)
    }
    pub fn below(&mut self, n: u64) -> u64 {
        if n == 0 { 0 } else { self.next() % n }
    }
    pub fn chance(&mut self, num: u64, den: u64) -> bool {
        self.below(den) < num
    }
}

pub fn hex(bytes: &[u8]) -> String {
    const D: &[u8; 16] = b"0123456789abcdef";
    let mut s = String::with_capacity(bytes.len() * 2);
    for b in bytes {
        s.push(D[(b >> 4) as usize] as char);
        s.push(D[(b & 15) as usize] as char);
    }
    s
}

pub fn unhex(s: &str) -> Vec<u8> {
    let b = s.as_bytes();
    (0..b.len() / 2)
        .map(|i| u8::from_str_radix(std::str::from_utf8(&b[2 * i..2 * i + 2]).unwrap(), 16).unwrap())
        .collect()
}

thread_local! {
    static LAST_PANIC: RefCell<String> = RefCell::new(String::new());
}

pub fn install_panic_hook() {
    std::panic::set_hook(Box::new(|info| {
        let msg = if let Some(s) = info.payload().downcast_ref::<&str>() {
            s.to_string()
        } else if let Some(s) = info.payload().downcast_ref::<String>() {
            s.clone()
        } else {
            "?".to_string()
        };
        let loc = info.location().map(|l| format!("{}:{}", l.file(), l.line())).unwrap_or_default();
        LAST_PANIC.with(|p| *p.borrow_mut() = format!("{msg} @ {loc}"));
    }));
}

/// Classify a panic message into the model's fault kinds.
pub fn fault_kind(msg: &str) -> &'static str {
    if msg.contains("with overflow") {
        "overflow"
    } else if msg.contains("divisor of zero") || msg.contains("divide by zero") {
        "divzero"
    } else if msg.contains("out of bounds")
        || msg.contains("out of range")
        || msg.contains("range end index")
        || msg.contains("range start index")
        || msg.contains("mid > len")
    {
        "oob"
    } else {
        "panic"
    }
}

/// Run `f`; `Err((kind, message))` if it panicked.
pub fn guarded<R>(f: impl FnOnce() -> R) -> Result<R, (String, String)> {
    match catch_unwind(AssertUnwindSafe(f)) {
        Ok(r) => Ok(r),
        Err(_) => {
            let msg = LAST_PANIC.with(|p| p.borrow().clone());
            Err((fault_kind(&msg).to_string(), msg))
        }
    }
}

/// Minimal JSON string escaping.
pub fn jstr(s: &str) -> String {
    let mut o = String::from("\"");
    for c in s.chars() {
        match c {
            '"' => o.push_str("\\\""),
            '\\' => o.push_str("\\\\"),
            '\n' => o.push_str("\\n"),
            '\r' => o.push_str("\\r"),
            '\t' => o.push_str("\\t"),
            c if (c as u32) < 0x20 => o.push_str(&format!("\\u{:04x}", c as u32)),
            c => o.push(c),
        }
    }
    o.push('"');
    o
}
