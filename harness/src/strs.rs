//! Prefixed strings, pod strings, pod bool/option/load behind the exploration engine.
//! States are plain byte buffers; string arguments travel as blobs.

use crate::engine::*;
use crate::util::*;
use bytemuck::{Pod, Zeroable};
use stevia::pod::{Nullable, PodBool, PodOption, PodStr};
use stevia::types::{U16PrefixStr, U16PrefixStrMut, U8PrefixStr, U8PrefixStrMut};
use stevia::ZeroCopy;

fn okhex(b: &[u8]) -> String {
    format!("ok x{}", hex(b))
}

/// the strings explored: all strings of up to `max_chars` chars over the alphabet
pub fn strings(max_chars: usize, alphabet: &[char]) -> Vec<String> {
    let mut out = vec![String::new()];
    let mut layer = vec![String::new()];
    for _ in 0..max_chars {
        let mut next = vec![];
        for s in &layer {
            for c in alphabet {
                let mut t = s.clone();
                t.push(*c);
                next.push(t);
            }
        }
        out.extend(next.iter().cloned());
        layer = next;
    }
    out
}

/// strings of every byte length 0..=max_len: runs of 'a', optionally ending in a 2-, 3- or 4-byte character
/// or containing a NUL in the middle
pub fn long_strings(max_len: usize) -> Vec<String> {
    let mut out = vec![];
    for k in 0..=max_len {
        let base = "a".repeat(k);
        out.push(base.clone());
        for tail in ["\u{e9}", "\u{20ac}", "\u{1f600}"] {
            out.push(format!("{base}{tail}"));
        }
        if k >= 2 {
            out.push(format!("{}\0{}", &base[..k / 2], &base[k / 2..]));
        }
    }
    out
}

/// sources whose byte length is just beyond a power of 256 (so that a length computed in the prefix type wraps to a
/// small number), with a multi-byte character straddling byte offset `cap`
pub fn wrap_strings(cap: usize, modulus: usize) -> Vec<String> {
    let mut out = vec![];
    for extra in 0..=cap + 1 {
        let total = modulus + extra;
        for ch in ["\u{e9}", "\u{20ac}", "\u{1f600}"] {
            for back in 1..ch.len() {
                // the character starts `back` bytes before offset `cap`
                if cap < back {
                    continue;
                }
                let mut t = "a".repeat(cap - back);
                t.push_str(ch);
                while t.len() < total {
                    t.push('a');
                }
                if t.len() == total {
                    out.push(t);
                }
            }
        }
        out.push("a".repeat(total));
    }
    out
}

/// texts whose last character is a low control character (U+0001 … U+0008): bytes just above the NUL terminator
pub fn control_strings(max_len: usize) -> Vec<String> {
    let mut out = vec![];
    for k in 0..=max_len {
        for c in ['\u{1}', '\u{2}', '\u{7f}', '\u{80}'] {
            let mut t = "a".repeat(k);
            t.push(c);
            out.push(t.clone());
            t.push('b');
            out.push(t);
        }
    }
    out
}

pub const ALPHABET: [char; 5] = ['\0', 'a', '\u{e9}', '\u{20ac}', '\u{1f600}'];

/// bytes covering every UTF-8 byte class
pub const BYTE_CLASSES: [u8; 12] = [0x00, 0x41, 0x7f, 0x80, 0xbf, 0xc0, 0xc3, 0xe0, 0xe2, 0xed, 0xf0, 0xf4];

pub fn byte_strings(len: usize) -> Vec<Vec<u8>> {
    let mut out: Vec<Vec<u8>> = vec![vec![]];
    for _ in 0..len {
        let mut next = vec![];
        for s in &out {
            for b in BYTE_CLASSES {
                let mut t = s.clone();
                t.push(b);
                next.push(t);
            }
        }
        out = next;
    }
    out
}

/// structured 4-byte cases: valid 4-byte char, overlong, surrogate, > U+10FFFF, truncated
pub fn structured() -> Vec<Vec<u8>> {
    vec![
        vec![0xf0, 0x9f, 0x98, 0x80],
        vec![0xf0, 0x80, 0x80, 0x80],
        vec![0xed, 0xa0, 0x80, 0x41],
        vec![0xf4, 0x90, 0x80, 0x80],
        vec![0xf4, 0x8f, 0xbf, 0xbf],
        vec![0xe2, 0x82, 0xac, 0x41],
        vec![0xe2, 0x82, 0x41, 0x41],
        vec![0xc3, 0xa9, 0xc3, 0xa9],
        vec![0xc0, 0x80, 0x41, 0x41],
        vec![0xe0, 0x80, 0x80, 0x41],
        vec![0xf8, 0x88, 0x80, 0x80],
        vec![0x41, 0xf0, 0x9f, 0x98],
    ]
}

// ---------------------------------------------------------------------------
// prefixed strings
// ---------------------------------------------------------------------------

pub struct PStrSut {
    pub w: usize,
    pub size: usize,
    pub strs: Vec<String>,
    pub byte_inits: bool,
}

macro_rules! pstr_call {
    ($mut:ident, $ro:ident, $bytes:expr, $op:expr) => {{
        let op: &Op = $op;
        let bytes: &mut [u8] = $bytes;
        match op.name {
            "new" => match $mut::new(bytes) {
                Ok(p) => {
                    let s: &str = p.as_str();
                    format!("{} s{}", okhex(s.as_bytes()), p.size())
                }
                Err(_) => "err".to_string(),
            },
            "upper" => match $mut::new(bytes) {
                // write through the &mut str handed out by DerefMut
                Ok(mut p) => {
                    {
                        let m: &mut str = &mut p;
                        m.make_ascii_uppercase();
                    }
                    let s: &str = &p;
                    format!("{} s{}", okhex(s.as_bytes()), p.size())
                }
                Err(_) => "err".to_string(),
            },
            "copy" => {
                let text = String::from_utf8(op.blob.clone().unwrap()).expect("harness strings are valid");
                match $mut::new(bytes) {
                    Ok(mut p) => {
                        p.copy_from_str(&text);
                        {
                            // the &mut str handed out by DerefMut
                            let m: &mut str = &mut p;
                            let _ = m.len();
                        }
                        let s: &str = p.as_str();
                        format!("{} s{}", okhex(s.as_bytes()), p.size())
                    }
                    Err(_) => "err".to_string(),
                }
            }
            "load" => match $ro::from_bytes(bytes) {
                Ok(p) => {
                    let s: &str = &p;
                    okhex(s.as_bytes())
                }
                Err(_) => "err".to_string(),
            },
            "size" => match $ro::from_bytes(bytes) {
                Ok(p) => p.size().to_string(),
                Err(_) => "err".to_string(),
            },
            other => panic!("unknown op {other}"),
        }
    }};
}

impl PStrSut {
    pub fn parse(&self, l: &str) -> Option<Op> {
        let ws: Vec<&str> = l.split_whitespace().collect();
        let name = *ws.first()?;
        const NAMES: &[&str] = &["new", "copy", "load", "size", "upper"];
        let n = NAMES.iter().find(|n| **n == name)?;
        let (args, blob) = Op::parse_args(&ws[1..]);
        Some(Op { name: n, args, blob })
    }
    fn pmax(&self) -> usize {
        if self.w == 1 { 255 } else { 65535 }
    }
}

fn floor_fit(text: &str, cap: usize) -> usize {
    // independent computation of "the longest prefix that fits without splitting a character"
    let mut n = 0;
    for (i, c) in text.char_indices() {
        if i + c.len_utf8() <= cap {
            n = i + c.len_utf8();
        } else {
            break;
        }
    }
    n
}

impl Sut for PStrSut {
    fn cfg_line(&self) -> String {
        format!("cfg pstr w={} label=U{}PrefixStr", self.w, 8 * self.w)
    }
    fn name(&self) -> String {
        format!("U{}PrefixStr(Mut) buffer={} strings={}", 8 * self.w, self.size, self.strs.len())
    }
    fn initial(&self) -> Vec<u8> {
        vec![0u8; self.size]
    }
    fn init_op(&self) -> Option<Op> {
        None
    }
    fn extra_initials(&self) -> Vec<Vec<u8>> {
        let mut v = vec![];
        if self.byte_inits && self.size >= self.w {
            let pay = self.size - self.w;
            let mut pats: Vec<Vec<u8>> = if pay <= 3 { byte_strings(pay) } else { vec![] };
            if pay == 4 {
                pats.extend(structured());
            }
            for p in pats {
                // recorded length = payload size (as `new` would write it) and, for loads, also shorter ones
                for l in [pay, pay.saturating_sub(1)] {
                    let mut b = vec![0u8; self.size];
                    let le = (l as u64).to_le_bytes();
                    b[..self.w].copy_from_slice(&le[..self.w]);
                    b[self.w..].copy_from_slice(&p);
                    v.push(b);
                }
            }
            // (small buffers only)
        }
        if self.size > self.w + self.pmax() {
            // payload area beyond the prefix maximum: multi-byte characters straddling the cap
            let pay = self.size - self.w;
            for ch in ["\u{e9}", "\u{20ac}", "\u{1f600}"] {
                let cb = ch.as_bytes();
                for back in 1..cb.len() {
                    let mut b = vec![b'a'; self.size];
                    let start = self.w + self.pmax() - back;
                    if start + cb.len() <= self.size {
                        b[start..start + cb.len()].copy_from_slice(cb);
                        for l in [pay.min(self.pmax()), 0] {
                            let le = (l as u64).to_le_bytes();
                            b[..self.w].copy_from_slice(&le[..self.w]);
                            v.push(b.clone());
                        }
                    }
                }
            }
        }
        if self.byte_inits && self.size >= self.w {
            let pay = self.size - self.w;
            // a recorded length larger than the buffer (load must panic, not read)
            let mut b = vec![0u8; self.size];
            let le = ((pay + 1) as u64).to_le_bytes();
            b[..self.w].copy_from_slice(&le[..self.w]);
            v.push(b);
        }
        v
    }
    fn ops(&self, _state: &[u8]) -> Vec<Op> {
        let mut v = vec![Op::new("new", &[]), Op::new("load", &[]), Op::new("size", &[]), Op::new("upper", &[])];
        for s in &self.strs {
            v.push(Op::with_blob("copy", &[], s.as_bytes()));
        }
        v
    }
    fn random_op(&self, rng: &mut Rng, _state: &[u8], _phase: usize) -> Op {
        let r = rng.below(10);
        if r < 7 {
            let s = &self.strs[rng.below(self.strs.len() as u64) as usize];
            Op::with_blob("copy", &[], s.as_bytes())
        } else if r < 8 {
            Op::new("new", &[])
        } else if r < 9 {
            Op::new("load", &[])
        } else {
            Op::new("size", &[])
        }
    }
    fn kind(&self, op: &Op) -> Kind {
        match op.name {
            "new" | "copy" | "upper" => Kind::Mutating,
            _ => Kind::Query,
        }
    }
    fn refused(&self, _op: &Op, _out: &OpOut) -> bool {
        false
    }
    fn panic_expected(&self, pre: &[u8], op: &Op) -> bool {
        // a buffer shorter than the prefix, or a recorded length beyond the buffer, is rejected by panic
        if pre.len() < self.w {
            return true;
        }
        if matches!(op.name, "load" | "size") {
            let mut x = 0usize;
            for i in 0..self.w {
                x |= (pre[i] as usize) << (8 * i);
            }
            return x > pre.len() - self.w;
        }
        false
    }
    fn panic_property(&self) -> &'static str {
        "C13"
    }
    fn alt_skew(&self) -> usize {
        1
    }
    fn apply(&self, buf: &mut ABuf, op: &Op) -> OpOut {
        let w = self.w;
        let r = guarded(|| {
            if w == 1 {
                pstr_call!(U8PrefixStrMut, U8PrefixStr, buf.bytes_mut(), op)
            } else {
                pstr_call!(U16PrefixStrMut, U16PrefixStr, buf.bytes_mut(), op)
            }
        });
        match r {
            Ok(s) => OpOut { result: s, trace: String::new(), panic: None },
            Err((kind, msg)) => OpOut { result: format!("fault {kind}"), trace: String::new(), panic: Some(msg) },
        }
    }
    fn oracle(&self, pre: &[u8], op: &Op, out: &OpOut, post: &[u8]) -> Vec<Finding> {
        let mut f = vec![];
        let w = self.w;
        // C11: every &str handed out is valid UTF-8
        if let Some(h) = out.result.strip_prefix("ok x") {
            let b = unhex(h.split(' ').next().unwrap_or(""));
            if std::str::from_utf8(&b).is_err() {
                f.push(Finding { property: "C11", what: format!("`{}` handed out a &str with invalid UTF-8 bytes {:02x?}", op.text(), b) });
            }
        }
        if pre.len() < w {
            return f;
        }
        let pay = pre.len() - w;
        let rec = |b: &[u8]| -> usize {
            let mut x = 0usize;
            for i in 0..w {
                x |= (b[i] as usize) << (8 * i);
            }
            x
        };
        match op.name {
            "new" | "copy" | "upper" => {
                if out.panic.is_some() {
                    return f;
                }
                // C13: the prefix records the payload size little-endian, clamped, never wrapped
                let want = pay.min(self.pmax());
                if rec(post) != want {
                    f.push(Finding { property: "C13", what: format!("`{}` on a {}-byte payload area recorded length {} (expected {})", op.text(), pay, rec(post), want) });
                    return f;
                }
                let valid_pre = std::str::from_utf8(&pre[w..w + want]).is_ok();
                if op.name == "upper" {
                    let exp = if valid_pre { format!("{} s{}", okhex(&pre[w..w + want].to_ascii_uppercase()), w + want) } else { "err".to_string() };
                    if out.result != exp {
                        f.push(Finding { property: "C13", what: format!("after make_ascii_uppercase through deref_mut the string is {} (expected {})", out.result, exp) });
                    }
                    if valid_pre && (post[w..w + want] != pre[w..w + want].to_ascii_uppercase()[..] || post[w + want..] != pre[w + want..]) {
                        f.push(Finding { property: "C13", what: "writing through deref_mut changed bytes other than the string's own".into() });
                    }
                } else if op.name == "new" {
                    let exp = if valid_pre { format!("{} s{}", okhex(&pre[w..w + want]), w + want) } else { "err".to_string() };
                    if out.result != exp {
                        f.push(Finding { property: if valid_pre { "C13" } else { "C11" }, what: format!("`new` over payload {:02x?} returned {} (expected {})", &pre[w..w + want], out.result, exp) });
                    }
                    if post[w..] != pre[w..] {
                        f.push(Finding { property: "C13", what: "`new` changed payload bytes".into() });
                    }
                } else if valid_pre {
                    let text = String::from_utf8(op.blob.clone().unwrap()).unwrap();
                    let n = floor_fit(&text, want);
                    let mut exp = text.as_bytes()[..n].to_vec();
                    exp.resize(want, 0);
                    if post[w..w + want] != exp[..] {
                        f.push(Finding { property: "C13", what: format!("copy of {:?} into {} bytes stored {:02x?}, expected the longest fitting char-prefix then zeros {:02x?}", text, want, &post[w..w + want], exp) });
                    }
                    if out.result != format!("{} s{}", okhex(&exp), w + want) {
                        f.push(Finding { property: "C13", what: format!("as_str/size after copy of {:?} is {} (expected {} s{})", text, out.result, okhex(&exp), w + want) });
                    }
                    if post[w + want..] != pre[w + want..] {
                        f.push(Finding { property: "C13", what: "copy changed bytes beyond the recorded length".into() });
                    }
                } else if out.result != "err" {
                    f.push(Finding { property: "C11", what: format!("`new` accepted an invalid payload before the copy: {}", out.result) });
                }
            }
            "load" | "size" => {
                let l = rec(pre);
                if l > pay {
                    if out.panic.is_none() {
                        f.push(Finding { property: "C13", what: format!("`{}` with recorded length {} > payload area {} did not panic: {}", op.text(), l, pay, out.result) });
                    }
                    return f;
                }
                if out.panic.is_some() {
                    return f;
                }
                let valid = std::str::from_utf8(&pre[w..w + l]).is_ok();
                let exp = if !valid {
                    "err".to_string()
                } else if op.name == "load" {
                    okhex(&pre[w..w + l])
                } else {
                    (w + l).to_string()
                };
                if out.result != exp {
                    let p = if !valid && out.result != "err" { "C11" } else { "C13" };
                    f.push(Finding { property: p, what: format!("`{}` over prefix {} payload {:02x?} returned {} (expected {})", op.text(), l, &pre[w..w + l], out.result, exp) });
                }
            }
            _ => {}
        }
        f
    }
    fn classify(&self, pre: &[u8], op: &Op, out: &OpOut, _post: &[u8]) -> Vec<&'static str> {
        let mut c = vec![];
        if op.name == "copy" && out.result.starts_with("ok") && pre.len() >= self.w {
            let text = String::from_utf8(op.blob.clone().unwrap()).unwrap();
            let cap = (pre.len() - self.w).min(self.pmax());
            if text.len() <= cap {
                c.push("copy:fits")
            } else if text.is_char_boundary(cap) {
                c.push("copy:cut-at-boundary")
            } else {
                c.push("copy:cut-inside-char")
            }
            if text.contains('\0') {
                c.push("copy:with-nul")
            }
        }
        if op.name == "new" || op.name == "load" {
            if out.result == "err" { c.push("validate:err") } else if out.result.starts_with("ok") { c.push("validate:ok") } else { c.push("validate:panic") }
        }
        c
    }
    fn nontrivial(&self, state: &[u8]) -> bool {
        state.len() > self.w && state[self.w..].iter().any(|b| *b >= 0x80)
    }
}

// ---------------------------------------------------------------------------
// PodStr<N>
// ---------------------------------------------------------------------------

pub struct PodStrSut {
    pub n: usize,
    pub strs: Vec<String>,
    pub byte_inits: bool,
}

macro_rules! podstr_call {
    ($n:expr, $bytes:expr, $op:expr) => {{
        let op: &Op = $op;
        let bytes: &mut [u8] = $bytes;
        let text = || String::from_utf8(op.blob.clone().unwrap()).expect("harness strings are valid");
        match op.name {
            "from" => {
                let v = PodStr::<$n>::from(text().as_str());
                bytes.copy_from_slice(bytemuck::bytes_of(&v));
                "-".to_string()
            }
            "copy" => {
                PodStr::<$n>::load_mut(bytes).copy_from_str(&text());
                "-".to_string()
            }
            "copyb" => {
                // the safe byte-slice entry point: arbitrary (possibly invalid) bytes
                PodStr::<$n>::load_mut(bytes).copy_from_slice(&op.blob.clone().unwrap());
                "-".to_string()
            }
            "asstr" => match PodStr::<$n>::load(bytes).as_str() {
                Ok(s) => okhex(s.as_bytes()),
                Err(_) => "err".to_string(),
            },
            "disp" => format!("x{}", hex(PodStr::<$n>::load(bytes).to_string().as_bytes())),
            "asunchk" => {
                // the unsafe accessor, called only when its contract (valid UTF-8) holds
                let p = PodStr::<$n>::load(bytes);
                match p.as_str() {
                    Ok(_) => okhex(unsafe { p.as_str_unchecked() }.as_bytes()),
                    Err(_) => "err".to_string(),
                }
            }
            "load" => {
                let v = *PodStr::<$n>::load(bytes);
                (PodStr::<$n>::load(bytemuck::bytes_of(&v)) == &v && bytemuck::bytes_of(&v) == &bytes[..]).to_string()
            }
            other => panic!("unknown op {other}"),
        }
    }};
}

impl PodStrSut {
    pub fn parse(&self, l: &str) -> Option<Op> {
        let ws: Vec<&str> = l.split_whitespace().collect();
        let name = *ws.first()?;
        const NAMES: &[&str] = &["from", "copy", "copyb", "asstr", "disp", "load", "asunchk"];
        let n = NAMES.iter().find(|n| **n == name)?;
        let (args, blob) = Op::parse_args(&ws[1..]);
        Some(Op { name: n, args, blob })
    }
}

impl Sut for PodStrSut {
    fn cfg_line(&self) -> String {
        format!("cfg podstr n={} label=PodStr<{}>", self.n, self.n)
    }
    fn name(&self) -> String {
        format!("PodStr<{}> strings={}", self.n, self.strs.len())
    }
    fn initial(&self) -> Vec<u8> {
        vec![0u8; self.n]
    }
    fn init_op(&self) -> Option<Op> {
        None
    }
    fn extra_initials(&self) -> Vec<Vec<u8>> {
        let mut v = vec![];
        if self.byte_inits {
            if self.n <= 3 {
                v.extend(byte_strings(self.n));
            }
            if self.n == 4 {
                v.extend(structured());
            }
        }
        v
    }
    fn ops(&self, _state: &[u8]) -> Vec<Op> {
        let mut v = vec![Op::new("asstr", &[]), Op::new("asunchk", &[]), Op::new("disp", &[]), Op::new("load", &[])];
        for s in &self.strs {
            v.push(Op::with_blob("from", &[], s.as_bytes()));
            v.push(Op::with_blob("copy", &[], s.as_bytes()));
        }
        if self.byte_inits {
            for b in byte_strings(2).into_iter().chain(structured()) {
                v.push(Op::with_blob("copyb", &[], &b));
            }
        }
        v
    }
    fn random_op(&self, rng: &mut Rng, _state: &[u8], _phase: usize) -> Op {
        let s = &self.strs[rng.below(self.strs.len() as u64) as usize];
        match rng.below(6) {
            0 => Op::new("asstr", &[]),
            1 => Op::new("disp", &[]),
            2 => Op::with_blob("from", &[], s.as_bytes()),
            _ => Op::with_blob("copy", &[], s.as_bytes()),
        }
    }
    fn kind(&self, op: &Op) -> Kind {
        match op.name {
            "from" | "copy" | "copyb" => Kind::Mutating,
            _ => Kind::Query,
        }
    }
    fn refused(&self, _op: &Op, _out: &OpOut) -> bool {
        false
    }
    fn panic_property(&self) -> &'static str {
        "C14"
    }
    fn alt_skew(&self) -> usize {
        3
    }
    fn apply(&self, buf: &mut ABuf, op: &Op) -> OpOut {
        let n = self.n;
        let r = guarded(|| match n {
            0 => podstr_call!(0, buf.bytes_mut(), op),
            1 => podstr_call!(1, buf.bytes_mut(), op),
            2 => podstr_call!(2, buf.bytes_mut(), op),
            3 => podstr_call!(3, buf.bytes_mut(), op),
            4 => podstr_call!(4, buf.bytes_mut(), op),
            5 => podstr_call!(5, buf.bytes_mut(), op),
            7 => podstr_call!(7, buf.bytes_mut(), op),
            8 => podstr_call!(8, buf.bytes_mut(), op),
            9 => podstr_call!(9, buf.bytes_mut(), op),
            10 => podstr_call!(10, buf.bytes_mut(), op),
            15 => podstr_call!(15, buf.bytes_mut(), op),
            24 => podstr_call!(24, buf.bytes_mut(), op),
            16 => podstr_call!(16, buf.bytes_mut(), op),
            17 => podstr_call!(17, buf.bytes_mut(), op),
            20 => podstr_call!(20, buf.bytes_mut(), op),
            33 => podstr_call!(33, buf.bytes_mut(), op),
            _ => panic!("PodStr size {n} not instantiated"),
        });
        match r {
            Ok(s) => OpOut { result: s, trace: String::new(), panic: None },
            Err((kind, msg)) => OpOut { result: format!("fault {kind}"), trace: String::new(), panic: Some(msg) },
        }
    }
    fn oracle(&self, pre: &[u8], op: &Op, out: &OpOut, post: &[u8]) -> Vec<Finding> {
        let mut f = vec![];
        if out.panic.is_some() {
            return f;
        }
        let n = self.n;
        let end = pre.iter().position(|b| *b == 0).unwrap_or(n);
        let text = &pre[..end];
        match op.name {
            "from" | "copy" | "copyb" => {
                let s = op.blob.clone().unwrap();
                let k = s.len().min(n);
                let mut exp = s[..k].to_vec();
                exp.resize(n, 0);
                if post != &exp[..] {
                    f.push(Finding { property: "C14", what: format!("`{}` gives bytes {:02x?}, expected the first min(len, N) bytes then zeros {:02x?}", op.text(), post, exp) });
                }
            }
            "asstr" | "asunchk" => {
                let exp = match std::str::from_utf8(text) {
                    Ok(_) => okhex(text),
                    Err(_) => "err".to_string(),
                };
                if out.result != exp {
                    let p = if out.result.starts_with("ok") && exp == "err" { "C11" } else { "C14" };
                    f.push(Finding { property: p, what: format!("as_str over {:02x?} returned {} (expected {})", pre, out.result, exp) });
                }
                if let Some(h) = out.result.strip_prefix("ok x") {
                    if std::str::from_utf8(&unhex(h)).is_err() {
                        f.push(Finding { property: "C11", what: format!("as_str handed out invalid UTF-8 {}", h) });
                    }
                }
            }
            "disp" => {
                let exp = format!("x{}", hex(String::from_utf8_lossy(text).as_bytes()));
                if out.result != exp {
                    f.push(Finding { property: "C14", what: format!("Display over {:02x?} rendered {} (expected the text before the first NUL: {})", pre, out.result, exp) });
                }
            }
            "load" => {
                if out.result != "true" {
                    f.push(Finding { property: "C14", what: "loading from the value's own bytes is not an equal value".into() });
                }
            }
            _ => {}
        }
        f
    }
    fn classify(&self, _pre: &[u8], op: &Op, _out: &OpOut, _post: &[u8]) -> Vec<&'static str> {
        let mut c = vec![];
        if let Some(b) = &op.blob {
            if b.len() < self.n { c.push("src:shorter") } else if b.len() == self.n { c.push("src:exact-fit") } else { c.push("src:longer") }
            if b.len() > self.n && std::str::from_utf8(&b[..self.n]).is_err() { c.push("src:cut-inside-char") }
            if b.contains(&0) { c.push("src:with-nul") }
        }
        c
    }
    fn nontrivial(&self, state: &[u8]) -> bool {
        state.iter().any(|b| *b >= 0x80)
    }
}

// ---------------------------------------------------------------------------
// PodBool / PodOption / load
// ---------------------------------------------------------------------------

#[repr(transparent)]
#[derive(Copy, Clone, Debug, PartialEq, Pod, Zeroable)]
pub struct N32(pub u32);
impl Nullable for N32 {
    fn is_some(&self) -> bool {
        self.0 != 0
    }
    fn is_none(&self) -> bool {
        self.0 == 0
    }
}
/// none-pattern is all ones
#[repr(transparent)]
#[derive(Copy, Clone, Debug, PartialEq, Pod, Zeroable)]
pub struct M64(pub [u8; 8]);
impl Nullable for M64 {
    fn is_some(&self) -> bool {
        self.0 != [0xff; 8]
    }
    fn is_none(&self) -> bool {
        self.0 == [0xff; 8]
    }
}
#[repr(transparent)]
#[derive(Copy, Clone, Debug, PartialEq, Pod, Zeroable)]
pub struct K32(pub [u8; 32]);
impl Nullable for K32 {
    fn is_some(&self) -> bool {
        self.0 != [0u8; 32]
    }
    fn is_none(&self) -> bool {
        self.0 == [0u8; 32]
    }
}
#[repr(transparent)]
#[derive(Copy, Clone, Debug, PartialEq, Pod, Zeroable)]
pub struct B1(pub u8);
impl Nullable for B1 {
    fn is_some(&self) -> bool {
        self.0 != 0
    }
    fn is_none(&self) -> bool {
        self.0 == 0
    }
}

/// one byte: 1 = some, 0 = none, anything else reports neither
#[repr(transparent)]
#[derive(Copy, Clone, Debug, PartialEq, Pod, Zeroable)]
pub struct Tri(pub u8);
impl Nullable for Tri {
    fn is_some(&self) -> bool {
        self.0 == 1
    }
    fn is_none(&self) -> bool {
        self.0 == 0
    }
}

/// kind: 2 = PodOption<Tri> (tri-state inner type), 0 = PodBool, 1 = PodOption<B1>, 4 = PodOption<N32>, 8 = PodOption<M64>, 32 = PodOption<K32>
pub struct PodSut {
    pub kind: usize,
    pub lens: Vec<usize>,
}

impl PodSut {
    fn size(&self) -> usize {
        if self.kind == 0 || self.kind == 2 { 1 } else { self.kind }
    }
    fn skew_of(&self) -> usize {
        0
    }
    pub fn parse(&self, l: &str) -> Option<Op> {
        let ws: Vec<&str> = l.split_whitespace().collect();
        let name = *ws.first()?;
        const NAMES: &[&str] = &["bool", "setb", "enc", "optval", "optset", "view", "store", "viewmis"];
        let n = NAMES.iter().find(|n| **n == name)?;
        let (args, blob) = Op::parse_args(&ws[1..]);
        Some(Op { name: n, args, blob })
    }
    fn is_some(&self, inner: &[u8]) -> bool {
        match self.kind {
            8 => inner != [0xffu8; 8],
            2 => inner[0] == 1,
            _ => inner.iter().any(|b| *b != 0),
        }
    }
}

macro_rules! opt_call {
    ($t:ty, $bytes:expr, $op:expr) => {{
        let op: &Op = $op;
        let bytes: &mut [u8] = $bytes;
        match op.name {
            "view" => format!("x{}", hex(bytemuck::bytes_of(PodOption::<$t>::load(bytes)))),
            "viewmis" => {
                // the same bytes at every offset 0..8 of an 8-byte aligned scratch area: `load` either refuses the
                // slice (bytemuck's alignment panic) or returns the view of exactly its first size_of bytes
                let mut area = [0u64; 16];
                let raw: &mut [u8] = bytemuck::cast_slice_mut(&mut area[..]);
                let mut outs = vec![];
                for off in 0..8usize {
                    for b in raw.iter_mut() {
                        *b = 0xEE;
                    }
                    raw[off..off + bytes.len()].copy_from_slice(bytes);
                    let sl: &[u8] = &raw[off..off + bytes.len()];
                    let r = std::panic::catch_unwind(std::panic::AssertUnwindSafe(|| hex(bytemuck::bytes_of(PodOption::<$t>::load(sl)))));
                    outs.push(match r {
                        Ok(h) => format!("x{h}"),
                        Err(_) => "refused".to_string(),
                    });
                }
                outs.join(",")
            }
            "optval" => match PodOption::<$t>::load(bytes).value() {
                Some(v) => format!("some x{}", hex(bytemuck::bytes_of(v))),
                None => "none".to_string(),
            },
            "optset" => {
                let b = op.blob.clone().unwrap();
                match PodOption::<$t>::load_mut(bytes).value_mut() {
                    Some(v) => {
                        *v = *bytemuck::from_bytes::<$t>(&b);
                        "true".to_string()
                    }
                    None => "false".to_string(),
                }
            }
            "store" => {
                let b = op.blob.clone().unwrap();
                *PodOption::<$t>::load_mut(bytes) = PodOption::new(*bytemuck::from_bytes::<$t>(&b));
                "-".to_string()
            }
            other => panic!("unknown op {other}"),
        }
    }};
}

impl Sut for PodSut {
    fn cfg_line(&self) -> String {
        format!("cfg pod kind={} size={}", self.kind, self.size())
    }
    fn name(&self) -> String {
        format!("pod kind={} lengths={:?}", self.kind, self.lens)
    }
    fn initial(&self) -> Vec<u8> {
        vec![0u8; self.size()]
    }
    fn init_op(&self) -> Option<Op> {
        None
    }
    fn skew(&self) -> usize {
        self.skew_of()
    }
    fn alt_skew(&self) -> usize {
        if self.kind == 4 { 4 } else { 5 }
    }
    fn extra_initials(&self) -> Vec<Vec<u8>> {
        let mut v = vec![];
        for l in &self.lens {
            if self.kind == 0 {
                for b in 0..=255u8 {
                    let mut x = vec![0x5au8; *l];
                    if *l > 0 {
                        x[0] = b;
                    }
                    v.push(x);
                }
            } else {
                for fillb in [0x00u8, 0xff, 0x01, 0x80, 0x02] {
                    let mut x = vec![fillb; *l];
                    v.push(x.clone());
                    if *l > 0 {
                        x[*l - 1] ^= 0x01;
                        v.push(x.clone());
                        x[0] ^= 0x10;
                        v.push(x);
                    }
                }
            }
        }
        v
    }
    fn ops(&self, _state: &[u8]) -> Vec<Op> {
        if self.kind == 0 {
            vec![Op::new("bool", &[]), Op::new("setb", &[0]), Op::new("setb", &[1]), Op::new("enc", &[0]), Op::new("enc", &[1]), Op::new("view", &[])]
        } else {
            let n = self.size();
            let mut v = vec![Op::new("optval", &[]), Op::new("view", &[]), Op::new("viewmis", &[])];
            for pat in [vec![0u8; n], vec![0xffu8; n], vec![0x07u8; n], vec![0x01u8; n]] {
                v.push(Op::with_blob("optset", &[], &pat));
                v.push(Op::with_blob("store", &[], &pat));
            }
            v
        }
    }
    fn random_op(&self, rng: &mut Rng, state: &[u8], _phase: usize) -> Op {
        let ops = self.ops(state);
        ops[rng.below(ops.len() as u64) as usize].clone()
    }
    fn kind(&self, op: &Op) -> Kind {
        match op.name {
            "setb" | "optset" | "store" => Kind::Mutating,
            _ => Kind::Query,
        }
    }
    fn refused(&self, op: &Op, out: &OpOut) -> bool {
        op.name == "optset" && out.result == "false"
    }
    fn panic_expected(&self, pre: &[u8], op: &Op) -> bool {
        pre.len() < self.size() && op.name != "enc"
    }
    fn panic_property(&self) -> &'static str {
        "C15"
    }
    fn apply(&self, buf: &mut ABuf, op: &Op) -> OpOut {
        let kind = self.kind;
        let r = guarded(|| {
            let bytes = buf.bytes_mut();
            if kind == 0 {
                match op.name {
                    "bool" => bool::from(PodBool::load(bytes)).to_string(),
                    "view" => format!("x{}", hex(bytemuck::bytes_of(PodBool::load(bytes)))),
                    "setb" => {
                        *PodBool::load_mut(bytes) = PodBool::from(op.args[0] != 0);
                        "-".to_string()
                    }
                    "enc" => {
                        let p = PodBool::from(&(op.args[0] != 0));
                        let back: bool = p.into();
                        format!("x{} {}", hex(bytemuck::bytes_of(&p)), back)
                    }
                    other => panic!("unknown op {other}"),
                }
            } else {
                match kind {
                    1 => opt_call!(B1, bytes, op),
                    2 => opt_call!(Tri, bytes, op),
                    4 => opt_call!(N32, bytes, op),
                    8 => opt_call!(M64, bytes, op),
                    32 => opt_call!(K32, bytes, op),
                    _ => panic!("kind"),
                }
            }
        });
        match r {
            Ok(s) => OpOut { result: s, trace: String::new(), panic: None },
            Err((kind, msg)) => OpOut { result: format!("fault {kind}"), trace: String::new(), panic: Some(msg) },
        }
    }
    fn oracle(&self, pre: &[u8], op: &Op, out: &OpOut, post: &[u8]) -> Vec<Finding> {
        let mut f = vec![];
        let n = self.size();
        if pre.len() < n && op.name == "viewmis" {
            if out.result.split(',').any(|o| o != "refused") {
                f.push(Finding { property: "C15", what: format!("`load` over a {}-byte buffer (size_of = {}) was not refused: {}", pre.len(), n, out.result) });
            }
            return f;
        }
        if pre.len() < n {
            if out.panic.is_none() && op.name != "enc" {
                f.push(Finding { property: "C15", what: format!("`{}` on a {}-byte buffer (size_of = {}) did not panic: {}", op.text(), pre.len(), n, out.result) });
            }
            return f;
        }
        if out.panic.is_some() {
            return f; // reported as C12-style panic by the engine; for C15 a panic on a long-enough buffer is wrong:
        }
        if op.name == "viewmis" {
            let want = format!("x{}", hex(&pre[..n]));
            for (off, o) in out.result.split(',').enumerate() {
                if o != "refused" && o != want {
                    f.push(Finding { property: "C15", what: format!("`load` of {:02x?} placed {} byte(s) past an 8-byte boundary returned the view {} (expected the first size_of bytes {} or a refusal)", pre, off, o, want) });
                    break;
                }
            }
            return f;
        }
        let exp: Option<String> = match op.name {
            "bool" => Some((pre[0] != 0).to_string()),
            "view" => Some(format!("x{}", hex(&pre[..n]))),
            "enc" => Some(format!("x{:02x} {}", (op.args[0] != 0) as u8, op.args[0] != 0)),
            "optval" => Some(if self.is_some(&pre[..n]) { format!("some x{}", hex(&pre[..n])) } else { "none".to_string() }),
            "optset" => Some(self.is_some(&pre[..n]).to_string()),
            _ => None,
        };
        if let Some(e) = exp {
            if e != out.result {
                f.push(Finding { property: "C15", what: format!("`{}` over {:02x?} returned {} (expected {})", op.text(), pre, out.result, e) });
            }
        }
        let mut want = pre.to_vec();
        match op.name {
            "setb" => want[0] = (op.args[0] != 0) as u8,
            "store" => want[..n].copy_from_slice(&op.blob.clone().unwrap()),
            "optset" if self.is_some(&pre[..n]) => want[..n].copy_from_slice(&op.blob.clone().unwrap()),
            _ => {}
        }
        if post != &want[..] {
            f.push(Finding { property: "C15", what: format!("after `{}` the buffer is {:02x?} (expected {:02x?})", op.text(), post, want) });
        }
        f
    }
    fn classify(&self, pre: &[u8], _op: &Op, _out: &OpOut, _post: &[u8]) -> Vec<&'static str> {
        let n = self.size();
        if pre.len() < n { vec!["len:short"] } else if pre.len() == n { vec!["len:exact"] } else { vec!["len:longer"] }
    }
    fn nontrivial(&self, state: &[u8]) -> bool {
        state.iter().any(|b| *b != 0)
    }
}
