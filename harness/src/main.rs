//! Correspondence / oracle harness for nifty-oss/stevia.  Built against the
//! current working tree of /repo (path dependency).  See /verif/DESIGN.md §2.3.
//!
//!   stevia_harness <collection> key=value ...
//!
//! Common keys: type=<instantiation> mode=bfs|random|replay out=<lines file>
//! stats=<json file> seed=<n> histories=<n> length=<n> checkpoint=<n>
//! max_states=<n> max_transitions=<n> file=<replay file>

mod aset;
mod engine;
mod hset;
mod nums;
mod strs;
mod tree;
mod util;

use engine::*;
use std::collections::HashMap;
use std::io::{BufWriter, Write};
use std::marker::PhantomData;

pub struct Args(HashMap<String, String>);
impl Args {
    fn get(&self, k: &str) -> Option<&str> {
        self.0.get(k).map(|s| s.as_str())
    }
    fn num(&self, k: &str, d: usize) -> usize {
        self.get(k).map(|s| s.parse().expect(k)).unwrap_or(d)
    }
    fn list(&self, k: &str) -> Vec<i128> {
        self.get(k).map(|s| s.split(',').filter(|x| !x.is_empty()).map(|x| x.parse().expect(k)).collect()).unwrap_or_default()
    }
}

fn run(sut: &dyn Sut, parse: &dyn Fn(&str) -> Option<Op>, a: &Args) -> i32 {
    run_with(sut, parse, a, None)
}

fn run_with(sut: &dyn Sut, parse: &dyn Fn(&str) -> Option<Op>, a: &Args, cases: Option<Vec<(Vec<Op>, Vec<Op>)>>) -> i32 {
    let limits = Limits {
        max_states: a.num("max_states", 400_000),
        max_transitions: a.num("max_transitions", 6_000_000),
        max_findings: a.num("max_findings", 20),
        missized: a.num("missized", 0) != 0,
    };
    let mode = a.get("mode").unwrap_or("bfs");
    start_watchdog(a.num("op_timeout", 10) as u64, a.get("stats").map(|s| s.to_string()), sut.name());
    let mut out: Box<dyn Write> = match a.get("out") {
        Some(p) => Box::new(BufWriter::with_capacity(1 << 20, std::fs::File::create(p).expect("out"))),
        None => Box::new(BufWriter::new(std::io::stdout())),
    };
    let stats = match mode {
        "bfs" => bfs(sut, &mut *out, &limits),
        "shapes" => multi_script(sut, &cases.expect("shapes mode is only available for trees"), &mut *out, &limits),
        "random" => random(
            sut,
            &mut *out,
            a.num("seed", 1) as u64,
            a.num("histories", 100),
            a.num("length", 60),
            a.num("checkpoint", 1),
            &limits,
        ),
        "replay" | "script" => {
            let text = std::fs::read_to_string(a.get("file").expect("file=")).expect("script file");
            let lines: Vec<String> = text.lines().filter(|l| !l.starts_with('#') && !l.trim().is_empty()).map(|s| s.to_string()).collect();
            script(sut, parse, &lines, &mut *out, mode == "replay")
        }
        m => panic!("unknown mode {m}"),
    };
    out.flush().unwrap();
    let js = stats.to_json(&sut.name());
    match a.get("stats") {
        Some(p) => std::fs::write(p, js).expect("stats"),
        None => eprintln!("{js}"),
    }
    if mode == "replay" && !stats.findings.is_empty() {
        return 1;
    }
    0
}

fn tree_cmd<A: tree::TreeApi>(a: &Args) -> i32 {
    let slots = a.num("slots", 4);
    let sut = tree::TreeSut::<A> {
        slots,
        init_cap: a.num("cap", slots),
        max_slots: a.num("max_slots", slots),
        keys: if a.get("keys").is_some() { a.list("keys") } else { (0..5).collect() },
        updates: a.num("updates", 1) == 1,
        ro_queries: a.num("ro", 1) == 1,
        fresh_base: a.num("fresh_base", 100) as i128,
        fill: a.num("fill", 1) == 1,
        _p: PhantomData,
    };
    let cases = if a.get("mode") == Some("shapes") { Some(sut.shape_cases(a.num("nodes", 8))) } else { None };
    run_with(&sut, &|l| sut.parse(l), a, cases)
}

fn hset_cmd<A: hset::HApi>(a: &Args) -> i32 {
    let slots = a.num("slots", 4);
    let sut = hset::HSut::<A> {
        slots,
        init_cap: a.num("cap", slots),
        vals: if a.get("vals").is_some() { a.list("vals") } else { (0..6).collect() },
        fresh_base: a.num("fresh_base", 100) as i128,
        fill: a.num("fill", 1) == 1,
        _p: PhantomData,
    };
    run(&sut, &|l| sut.parse(l), a)
}

fn aset_cmd<A: aset::AApi>(a: &Args) -> i32 {
    let slots = a.num("slots", 4);
    let sut = aset::ASut::<A> {
        slots,
        max_slots: a.num("max_slots", slots),
        vals: if a.get("vals").is_some() { a.list("vals") } else { (1..7).collect() },
        updates: a.num("updates", 0) == 1,
        fresh_base: a.num("fresh_base", 100) as i128,
        fill: a.num("fill", 1) == 1,
        _p: PhantomData,
    };
    run(&sut, &|l| sut.parse(l), a)
}

fn alphabet(a: &Args) -> Vec<char> {
    match a.get("alphabet") {
        Some(x) => x.split(',').filter(|t| !t.is_empty()).map(|t| char::from_u32(u32::from_str_radix(t, 16).expect("alphabet")).expect("alphabet")).collect(),
        None => strs::ALPHABET.to_vec(),
    }
}

fn main() {
    util::install_panic_hook();
    let argv: Vec<String> = std::env::args().collect();
    if argv.len() < 2 {
        eprintln!("usage: stevia_harness <collection> key=value ...");
        std::process::exit(2);
    }
    let mut m = HashMap::new();
    for kv in &argv[2..] {
        if let Some((k, v)) = kv.split_once('=') {
            m.insert(k.to_string(), v.to_string());
        }
    }
    let a = Args(m);
    let code = match argv[1].as_str() {
        "tree" => match a.get("type").unwrap_or("T8u8u8") {
            "T8u8u8" => tree_cmd::<tree::T8u8u8>(&a),
            "T8u8u64" => tree_cmd::<tree::T8u8u64>(&a),
            "T8u64u8" => tree_cmd::<tree::T8u64u8>(&a),
            "T8u32u16" => tree_cmd::<tree::T8u32u16>(&a),
            "T8i64u64" => tree_cmd::<tree::T8i64u64>(&a),
            "T8logu8" => tree_cmd::<tree::T8logu8>(&a),
            "T32u8u8" => tree_cmd::<tree::T32u8u8>(&a),
            "T32u8u64" => tree_cmd::<tree::T32u8u64>(&a),
            "T32u64u8" => tree_cmd::<tree::T32u64u8>(&a),
            "T32u32u16" => tree_cmd::<tree::T32u32u16>(&a),
            "T32u64u64" => tree_cmd::<tree::T32u64u64>(&a),
            "T32i64u64" => tree_cmd::<tree::T32i64u64>(&a),
            "T32logu8" => tree_cmd::<tree::T32logu8>(&a),
            "T32a32u64" => tree_cmd::<tree::T32a32u64>(&a),
            "T8a32a32" => tree_cmd::<tree::T8a32a32>(&a),
            "T32u128u64" => tree_cmd::<tree::T32u128u64>(&a),
            "T8u128u8" => tree_cmd::<tree::T8u128u8>(&a),
            "T32u32bps" => tree_cmd::<tree::T32u32bps>(&a),
            "T32idtagu8" => tree_cmd::<tree::T32idtagu8>(&a),
            "T8idtagu8" => tree_cmd::<tree::T8idtagu8>(&a),
            "T8b3b12" => tree_cmd::<tree::T8b3b12>(&a),
            "T32b3u32" => tree_cmd::<tree::T32b3u32>(&a),
            "T32u32unit" => tree_cmd::<tree::T32u32unit>(&a),
            "T8u8unit" => tree_cmd::<tree::T8u8unit>(&a),
            "T8u8bps" => tree_cmd::<tree::T8u8bps>(&a),
            t => panic!("unknown tree type {t}"),
        },
        "hset" => match a.get("type").unwrap_or("HU64") {
            "HU64" => hset_cmd::<hset::HU64>(&a),
            "HU32" => hset_cmd::<hset::HU32>(&a),
            "HU8" => hset_cmd::<hset::HU8>(&a),
            "HWeak" => hset_cmd::<hset::HWeak>(&a),
            "HA32" => hset_cmd::<hset::HA32>(&a),
            "HU128" => hset_cmd::<hset::HU128>(&a),
            "HTicket" => hset_cmd::<hset::HTicket>(&a),
            "HBps" => hset_cmd::<hset::HBps>(&a),
            "HB12" => hset_cmd::<hset::HB12>(&a),
            t => panic!("unknown hset type {t}"),
        },
        "aset" => match a.get("type").unwrap_or("A8u8") {
            "A8u8" => aset_cmd::<aset::A8u8>(&a),
            "A8u16" => aset_cmd::<aset::A8u16>(&a),
            "A8u64" => aset_cmd::<aset::A8u64>(&a),
            "A8log" => aset_cmd::<aset::A8log>(&a),
            "A16u8" => aset_cmd::<aset::A16u8>(&a),
            "A16u32" => aset_cmd::<aset::A16u32>(&a),
            "A16keyed" => aset_cmd::<aset::A16keyed>(&a),
            "A16log" => aset_cmd::<aset::A16log>(&a),
            "A32u64" => aset_cmd::<aset::A32u64>(&a),
            "A32u16" => aset_cmd::<aset::A32u16>(&a),
            "A32keyed" => aset_cmd::<aset::A32keyed>(&a),
            "A64u8" => aset_cmd::<aset::A64u8>(&a),
            "A64u64" => aset_cmd::<aset::A64u64>(&a),
            "A8b3" => aset_cmd::<aset::A8b3>(&a),
            "A16b12" => aset_cmd::<aset::A16b12>(&a),
            t => panic!("unknown aset type {t}"),
        },
        "pstr" => {
            let sut = strs::PStrSut {
                w: a.num("w", 1),
                size: a.num("size", 4),
                strs: {
                    let mut v = strs::strings(a.num("chars", 2), &alphabet(&a));
                    if a.num("long", 0) == 1 {
                        v.extend(strs::long_strings(a.num("size", 4) + 3));
                    }
                    if a.num("wrap", 0) == 1 {
                        let w = a.num("w", 1);
                        v.extend(strs::wrap_strings(a.num("size", 4).saturating_sub(w), if w == 1 { 256 } else { 65536 }));
                    }
                    v
                },
                byte_inits: a.num("bytes", 1) == 1,
            };
            run(&sut, &|l| sut.parse(l), &a)
        }
        "podstr" => {
            let n = a.num("n", 4);
            let mut strs = strs::strings(a.num("chars", 2), &alphabet(&a));
            if a.num("long", 0) == 1 {
                strs.extend(strs::long_strings(n + 3));
            }
            if a.num("ctl", 0) == 1 {
                strs.extend(strs::control_strings(n + 1));
            }
            let sut = strs::PodStrSut { n, strs, byte_inits: a.num("bytes", 1) == 1 };
            run(&sut, &|l| sut.parse(l), &a)
        }
        "pod" => {
            let kind = a.num("kind", 0);
            let n = if kind == 0 || kind == 2 { 1 } else { kind };
            let lens: Vec<usize> = if a.get("lens").is_some() { a.list("lens").iter().map(|x| *x as usize).collect() } else { vec![n.saturating_sub(1), n, n + 1, n + 7] };
            let sut = strs::PodSut { kind, lens };
            run(&sut, &|l| sut.parse(l), &a)
        }
        c => {
            eprintln!("unknown collection {c}");
            2
        }
    };
    std::process::exit(code);
}
