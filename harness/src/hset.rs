//! Hash set behind the exploration engine.

use crate::engine::*;
use crate::nums::*;
use crate::util::*;
use std::collections::hash_map::DefaultHasher;
use std::collections::BTreeSet;
use std::hash::{Hash, Hasher};
use std::marker::PhantomData;
use stevia::collections::{HashSet, HashSetMut};

pub trait HApi {
    fn label() -> String;
    fn val() -> (usize, usize);
    /// 1/2/4/8 = plain unsigned integer of that width, 0 = weak hash
    fn hash_kind() -> usize;
    fn data_len(cap: usize) -> usize;
    fn call(bytes: &mut [u8], op: &Op) -> String;
    fn session(bytes: &mut [u8], ops: &[Op]) -> Vec<String>;
    fn hash_of(v: i128) -> u64;
}

macro_rules! hset_api {
    ($name:ident, $V:ty, $hk:expr) => {
        pub struct $name;
        impl HApi for $name {
            fn label() -> String {
                format!("HashSetMut<{}>", <$V as Num>::NAME)
            }
            fn val() -> (usize, usize) {
                (<$V as Num>::SIZE, <$V as Num>::ALIGN)
            }
            fn hash_kind() -> usize {
                $hk
            }
            fn data_len(cap: usize) -> usize {
                HashSetMut::<$V>::data_len(cap)
            }
            fn hash_of(v: i128) -> u64 {
                let mut h = DefaultHasher::new();
                <$V as Num>::from_i(v).hash(&mut h);
                h.finish()
            }
            fn session(bytes: &mut [u8], ops: &[Op]) -> Vec<String> {
                let mut s = HashSetMut::<$V>::from_bytes_mut(bytes);
                let mut out = vec![];
                for op in ops {
                    let v = |i: usize| <$V as Num>::from_i(op.args[i]);
                    out.push(match op.name {
                        "init" => {
                            s.initialize(op.args[0] as u32);
                            "-".to_string()
                        }
                        "ins" => s.insert(v(0)).to_string(),
                        "rem" => s.remove(&v(0)).to_string(),
                        "has" | "rhas" => s.contains(&v(0)).to_string(),
                        "size" | "rsize" => s.size().to_string(),
                        "cap" | "rcap" => s.capacity().to_string(),
                        "full" | "rfull" => s.is_full().to_string(),
                        "empty" | "rempty" => s.is_empty().to_string(),
                        other => panic!("op {other} not possible in a session"),
                    });
                }
                out
            }
            fn call(bytes: &mut [u8], op: &Op) -> String {
                let v = |i: usize| <$V as Num>::from_i(op.args[i]);
                match op.name {
                    "init" => {
                        HashSetMut::<$V>::from_bytes_mut(bytes).initialize(op.args[0] as u32);
                        "-".into()
                    }
                    "open" => {
                        let _s = HashSetMut::<$V>::from_bytes_mut(bytes);
                        "-".into()
                    }
                    "ins" => HashSetMut::<$V>::from_bytes_mut(bytes).insert(v(0)).to_string(),
                    "rem" => HashSetMut::<$V>::from_bytes_mut(bytes).remove(&v(0)).to_string(),
                    "has" => HashSetMut::<$V>::from_bytes_mut(bytes).contains(&v(0)).to_string(),
                    "size" => HashSetMut::<$V>::from_bytes_mut(bytes).size().to_string(),
                    "cap" => HashSetMut::<$V>::from_bytes_mut(bytes).capacity().to_string(),
                    "full" => HashSetMut::<$V>::from_bytes_mut(bytes).is_full().to_string(),
                    "empty" => HashSetMut::<$V>::from_bytes_mut(bytes).is_empty().to_string(),
                    "rhas" => HashSet::<$V>::from_bytes(bytes).contains(&v(0)).to_string(),
                    "rsize" => HashSet::<$V>::from_bytes(bytes).size().to_string(),
                    "dlen" => HashSetMut::<$V>::data_len(op.args[0] as usize).to_string(),
                    "bulk" => {
                        let mut s = HashSetMut::<$V>::from_bytes_mut(bytes);
                        let mut n = 0usize;
                        for j in 0..op.args[1] {
                            if s.insert(<$V as Num>::from_i(op.args[0] + j)) {
                                n += 1;
                            }
                        }
                        n.to_string()
                    }
                    "bulkrem" => {
                        let mut s = HashSetMut::<$V>::from_bytes_mut(bytes);
                        let mut n = 0usize;
                        for j in 0..op.args[1] {
                            if s.remove(&<$V as Num>::from_i(op.args[0] + j)) {
                                n += 1;
                            }
                        }
                        n.to_string()
                    }
                    "rcap" => HashSet::<$V>::from_bytes(bytes).capacity().to_string(),
                    "rfull" => HashSet::<$V>::from_bytes(bytes).is_full().to_string(),
                    "rempty" => HashSet::<$V>::from_bytes(bytes).is_empty().to_string(),
                    "iter" => {
                        let s = HashSet::<$V>::from_bytes(bytes);
                        let mut out = vec![];
                        for (n, x) in s.iter().enumerate() {
                            if n > 100_000 {
                                panic!("iteration does not terminate");
                            }
                            out.push(x.to_i().to_string());
                        }
                        format!("[{}]", out.join(","))
                    }
                    "fill" => {
                        let mut copy = ABuf::new(bytes, 1, 0x77);
                        let mut n = 0usize;
                        let mut s = HashSetMut::<$V>::from_bytes_mut(copy.bytes_mut());
                        let mut j = 0i128;
                        while j < op.args[1] {
                            if !s.insert(<$V as Num>::from_i(op.args[0] + j)) {
                                break;
                            }
                            n += 1;
                            j += 1;
                        }
                        n.to_string()
                    }
                    other => panic!("unknown op {other}"),
                }
            }
        }
    };
}

hset_api!(HU64, u64, 8);
hset_api!(HU32, u32, 4);
hset_api!(HU8, u8, 1);
hset_api!(HWeak, WeakHash, 0);
hset_api!(HA32, A32, 32);
hset_api!(HU128, u128, 16);
hset_api!(HTicket, Ticket, 4);
hset_api!(HBps, Bps, 4);
hset_api!(HB12, B12, 112);

pub struct HDecoded {
    pub size: usize,
    pub cap: usize,
    pub flh: usize,
    pub seq: usize,
    pub slots: usize,
    /// bucket, next, value
    pub recs: Vec<(usize, usize, i128)>,
}

fn le(bytes: &[u8]) -> u128 {
    let mut x = 0u128;
    for (i, b) in bytes.iter().enumerate() {
        x |= (*b as u128) << (8 * i);
    }
    x
}

pub fn hdecode<A: HApi>(bytes: &[u8]) -> HDecoded {
    let (vs, va) = A::val();
    let voff = (8 + va - 1) / va * va;
    let al = va.max(4);
    let rsz = (voff + vs + al - 1) / al * al;
    let w = |j: usize| le(&bytes[4 * j..4 * j + 4]) as usize;
    let slots = (bytes.len() - 16) / rsz;
    let mut recs = vec![];
    for s in 0..slots {
        let b = &bytes[16 + s * rsz..16 + (s + 1) * rsz];
        recs.push((le(&b[0..4]) as usize, le(&b[4..8]) as usize, le(&b[voff..voff + vs.min(15)]) as i128));
    }
    HDecoded { size: w(0), cap: w(1), flh: w(2), seq: w(3), slots, recs }
}

impl HDecoded {
    /// Chains per bucket with structural checks; (bucket, position, value).
    pub fn members(&self) -> Result<Vec<(usize, usize, i128)>, String> {
        let mut seen = vec![false; self.slots + 1];
        let mut out = vec![];
        for b in 0..self.cap.min(self.slots) {
            let mut i = self.recs[b].0;
            let mut pos = 0;
            while i != 0 {
                if i > self.slots {
                    return Err(format!("chain of bucket {b} leaves the buffer (index {i})"));
                }
                if seen[i] {
                    return Err(format!("record {i} reached twice"));
                }
                seen[i] = true;
                out.push((b, pos, self.recs[i - 1].2));
                i = self.recs[i - 1].1;
                pos += 1;
            }
        }
        if out.len() != self.size {
            return Err(format!("size word {} but {} values reachable from the buckets", self.size, out.len()));
        }
        Ok(out)
    }
}

pub struct HSut<A: HApi> {
    pub slots: usize,
    pub init_cap: usize,
    pub vals: Vec<i128>,
    pub fresh_base: i128,
    pub fill: bool,
    pub _p: PhantomData<A>,
}

impl<A: HApi> HSut<A> {
    /// the part of a value that `Eq`/`Hash` look at (the whole value except for `Ticket`)
    fn key_of(v: i128) -> i128 {
        if A::label().contains("ticket") { v & 0xffff_ffff } else { v }
    }
    fn keyed() -> bool {
        A::label().contains("ticket")
    }
    /// What the API itself reports (read-only view on a private copy): `contains` for every value of
    /// the universe, `size`, `capacity`, and the iteration. `None` if a query panics.
    fn api_contents(&self, state: &[u8]) -> Option<(BTreeSet<i128>, usize, usize, Vec<i128>)> {
        let mut copy = ABuf::new(state, 2, 0x11);
        guarded(|| {
            let mut m = BTreeSet::new();
            for v in &self.vals {
                if A::call(copy.bytes_mut(), &Op::new("rhas", &[*v])) == "true" {
                    m.insert(*v);
                }
            }
            let size: usize = A::call(copy.bytes_mut(), &Op::new("rsize", &[])).parse().unwrap();
            let cap: usize = A::call(copy.bytes_mut(), &Op::new("rcap", &[])).parse().unwrap();
            let it = A::call(copy.bytes_mut(), &Op::new("iter", &[]));
            let items: Vec<i128> = it.trim_matches(|c| c == '[' || c == ']').split(',').filter(|s| !s.is_empty()).map(|s| Self::key_of(s.parse().unwrap())).collect();
            (m, size, cap, items)
        })
        .ok()
    }
    pub fn parse(&self, l: &str) -> Option<Op> {
        let mut it = l.split_whitespace();
        let name = it.next()?;
        const NAMES: &[&str] = &["init", "open", "ins", "rem", "has", "size", "cap", "full", "empty", "rhas", "rsize", "rcap", "rfull", "rempty", "iter", "fill", "dlen", "bulk", "bulkrem"];
        let n = NAMES.iter().find(|n| **n == name)?;
        Some(Op { name: n, args: it.filter_map(|a| a.parse().ok()).collect(), blob: None })
    }
}

impl<A: HApi> Sut for HSut<A> {
    fn cfg_line(&self) -> String {
        let (vs, va) = A::val();
        format!("cfg hset vsz={} val={} hk={} label={}", vs, va, A::hash_kind(), A::label())
    }
    fn name(&self) -> String {
        format!("{} slots={} cap={} values={:?}", A::label(), self.slots, self.init_cap, self.vals)
    }
    fn initial(&self) -> Vec<u8> {
        vec![0u8; A::data_len(self.slots)]
    }
    fn init_op(&self) -> Option<Op> {
        Some(Op::new("init", &[self.init_cap as i128]))
    }
    fn ops(&self, state: &[u8]) -> Vec<Op> {
        let d = hdecode::<A>(state);
        let mut v = vec![];
        for x in &self.vals {
            if Self::keyed() {
                // same id, two different stamps: a duplicate insert carries a different payload
                v.push(Op::new("ins", &[*x | (1i128 << 32)]));
                v.push(Op::new("ins", &[*x | (2i128 << 32)]));
            } else {
                v.push(Op::new("ins", &[*x]));
            }
            v.push(Op::new("rem", &[*x]));
            v.push(Op::new("has", &[*x]));
            v.push(Op::new("rhas", &[*x]));
        }
        for n in ["size", "cap", "full", "empty", "rsize", "rcap", "rfull", "rempty", "iter", "open"] {
            v.push(Op::new(n, &[]));
        }
        v.push(Op::new("dlen", &[(d.size + d.cap) as i128]));
        if d.size == 0 {
            for c in [1i128, 8, 255, 65_536, 1 << 27, (1i128 << 32) - 1] {
                v.push(Op::new("dlen", &[c]));
            }
        }
        if self.fill {
            v.push(Op::new("fill", &[self.fresh_base, (d.cap + 2) as i128]));
        }
        v
    }
    fn random_op(&self, rng: &mut Rng, state: &[u8], phase: usize) -> Op {
        let d = hdecode::<A>(state);
        let x = self.vals[rng.below(self.vals.len() as u64) as usize];
        let r = rng.below(100);
        let fullish = d.size * 10 >= d.cap * 8;
        let ins_p = match phase {
            0 => 72,
            2 => 12,
            _ => if fullish { 35 } else { 55 },
        };
        if r < ins_p {
            Op::new("ins", &[if Self::keyed() { x | ((1 + rng.below(2) as i128) << 32) } else { x }])
        } else if r < 82 {
            Op::new("rem", &[x])
        } else if r < 88 {
            Op::new("has", &[x])
        } else if r < 92 {
            Op::new("rhas", &[x])
        } else if r < 95 {
            Op::new("iter", &[])
        } else if r < 96 {
            Op::new("size", &[])
        } else if r < 97 {
            Op::new("full", &[])
        } else if r < 98 && self.fill {
            Op::new("fill", &[self.fresh_base, (d.cap + 2) as i128])
        } else {
            Op::new("open", &[])
        }
    }
    fn kind(&self, op: &Op) -> Kind {
        match op.name {
            "init" | "ins" | "rem" | "bulk" | "bulkrem" => Kind::Mutating,
            _ => Kind::Query,
        }
    }
    fn refused(&self, op: &Op, out: &OpOut) -> bool {
        matches!(op.name, "ins" | "rem") && out.result == "false"
    }
    fn alt_skew(&self) -> usize {
        A::val().1.max(4) % 16
    }
    fn preflight(&self) -> Vec<(Finding, Vec<String>)> {
        let (vs, va) = A::val();
        let voff = (8 + va - 1) / va * va;
        let al = va.max(4);
        let rec = (voff + vs + al - 1) / al * al;
        let mut f = vec![];
        for c in [0usize, 1, 2, 7, 255, 4096] {
            let got = guarded(|| A::data_len(c));
            let want = 16 + c * rec;
            if got.as_ref().ok() != Some(&want) {
                f.push((Finding { property: "C10", what: format!("data_len({c}) is {:?} but header + records is {want} ({})", got.ok(), A::label()) }, vec![format!("dlen {c}")]));
                break;
            }
        }
        f
    }
    fn sessionable(&self, op: &Op) -> bool {
        !matches!(op.name, "open" | "fill" | "iter" | "dlen" | "bulk" | "bulkrem")
    }
    fn session(&self, buf: &mut ABuf, ops: &[Op]) -> Option<Vec<String>> {
        guarded(|| A::session(buf.bytes_mut(), ops)).ok()
    }
    fn apply(&self, buf: &mut ABuf, op: &Op) -> OpOut {
        match guarded(|| A::call(buf.bytes_mut(), op)) {
            Ok(s) => OpOut { result: s, trace: String::new(), panic: None },
            Err((kind, msg)) => OpOut { result: format!("fault {kind}"), trace: String::new(), panic: Some(msg) },
        }
    }
    fn oracle(&self, pre: &[u8], op: &Op, out: &OpOut, post: &[u8]) -> Vec<Finding> {
        let mut f = vec![];
        let prop = if op.name == "fill" { "C07" } else if op.name == "dlen" { "C10" } else { "C02" };
        if out.panic.is_some() {
            if op.name != "init" {
                f.push(Finding { property: prop, what: format!("`{}` panicked instead of answering: {}", op.text(), out.panic.clone().unwrap()) });
            }
            return f;
        }
        if op.name == "dlen" {
            // data_len(c) is exactly header plus c records; record size from the layout rule
            // (repr(C): two u32 registers, the value at its alignment), not from data_len itself
            let (vs, va) = A::val();
            let voff = (8 + va - 1) / va * va;
            let al = va.max(4);
            let rec = (voff + vs + al - 1) / al * al;
            let want = (16u128 + op.args[0] as u128 * rec as u128).to_string();
            if want != out.result {
                f.push(Finding { property: "C10", what: format!("data_len({}) is {} but header + records is {}", op.args[0], out.result, want) });
            }
            return f;
        }
        let dq = hdecode::<A>(post);
        // C10: the format as read by the independent decoder
        let post_m = match dq.members() {
            Ok(m) => Some(m),
            Err(e) => {
                f.push(Finding { property: "C10", what: format!("after `{}`: {}", op.text(), e) });
                None
            }
        };
        if let Some(pm) = &post_m {
            for (b, _, v) in pm {
                if dq.cap > 0 && (A::hash_of(*v) as u32 % dq.cap as u32) as usize != *b {
                    f.push(Finding { property: "C10", what: format!("after `{}`: value {} sits in bucket {} but hashes to {}", op.text(), v, b, A::hash_of(*v) as u32 % dq.cap as u32) });
                }
            }
        }
        // C02: what the API reports before and after, against the reference set
        let Some((m, msize, mcap, _)) = self.api_contents(pre) else { return f };
        let Some((q, qsize, _, items)) = self.api_contents(post) else {
            f.push(Finding { property: prop, what: format!("after `{}` a read-only query panics", op.text()) });
            f.push(Finding { property: "C04", what: format!("after `{}` the read-only view of the bytes panics on a query", op.text()) });
            return f;
        };
        // C04: the mutable view of the same bytes reports the same contents
        {
            let mut copy = ABuf::new(post, 1, 0x22);
            let viaw = guarded(|| {
                let mut m2 = BTreeSet::new();
                for v in &self.vals {
                    if A::call(copy.bytes_mut(), &Op::new("has", &[*v])) == "true" {
                        m2.insert(*v);
                    }
                }
                (m2, A::call(copy.bytes_mut(), &Op::new("size", &[])))
            });
            let flags = guarded(|| {
                let q = |n: &'static str, c: &mut ABuf| A::call(c.bytes_mut(), &Op::new(n, &[]));
                let mut c2 = ABuf::new(post, 1, 0x22);
                ((q("cap", &mut c2), q("full", &mut c2), q("empty", &mut c2)), (q("rcap", &mut c2), q("rfull", &mut c2), q("rempty", &mut c2)))
            });
            match flags {
                Ok((mu, ro)) => {
                    if mu != ro {
                        f.push(Finding { property: "C04", what: format!("after `{}` the mutable view answers (capacity, is_full, is_empty) = {:?} but the read-only view of the same bytes answers {:?}", op.text(), mu, ro) });
                    }
                }
                Err(_) => f.push(Finding { property: "C04", what: format!("after `{}` capacity/is_full/is_empty panics on one of the views", op.text()) }),
            }
            match viaw {
                Ok((m2, l2)) => {
                    if m2 != q || l2 != qsize.to_string() {
                        f.push(Finding { property: "C04", what: format!("after `{}` the mutable view reports {:?} (size {}) but the read-only view of the same bytes reports {:?} (size {})", op.text(), m2, l2, q, qsize) });
                    }
                    if copy.bytes() != post {
                        f.push(Finding { property: "C04", what: format!("after `{}` re-opening the buffer mutably and querying it changed bytes", op.text()) });
                    }
                }
                Err(_) => f.push(Finding { property: "C04", what: format!("after `{}` the mutable view of the bytes panics on a query", op.text()) }),
            }
        }
        if let Some(pm) = &post_m {
            let dm: BTreeSet<i128> = pm.iter().map(|x| Self::key_of(x.2)).filter(|v| self.vals.contains(v)).collect();
            if dm != q || pm.len() != qsize {
                f.push(Finding { property: "C10", what: format!("after `{}` the format decoder finds {:?} but the API reports {:?} (size {})", op.text(), dm, q, qsize) });
            }
        }
        let mut exp = m.clone();
        let x = Self::key_of(op.args.first().copied().unwrap_or(0));
        let expected: Option<String> = match op.name {
            "dlen" => None,
            "ins" => Some((msize < mcap && exp.insert(x)).to_string()),
            "rem" => Some(exp.remove(&x).to_string()),
            "has" | "rhas" => Some(m.contains(&x).to_string()),
            "size" | "rsize" => Some(msize.to_string()),
            "cap" | "rcap" => Some(mcap.to_string()),
            "full" | "rfull" => Some((msize >= mcap).to_string()),
            "empty" | "rempty" => Some((msize == 0).to_string()),
            "fill" => {
                let mut n = 0usize;
                while n < mcap.saturating_sub(msize) && (n as i128) < op.args[1] && !m.contains(&(op.args[0] + n as i128)) {
                    n += 1;
                }
                Some(n.to_string())
            }
            "init" => {
                exp.clear();
                None
            }
            "bulk" => {
                let n = (op.args[1] as usize).min(mcap.saturating_sub(msize));
                for v in self.vals.iter().filter(|v| **v >= op.args[0] && **v < op.args[0] + n as i128) {
                    exp.insert(*v);
                }
                Some(n.to_string())
            }
            "bulkrem" => {
                for v in self.vals.iter().filter(|v| **v >= op.args[0] && **v < op.args[0] + op.args[1]) {
                    exp.remove(v);
                }
                None
            }
            _ => None,
        };
        if let Some(e) = expected {
            if e != out.result {
                f.push(Finding { property: prop, what: format!("`{}` returned {} but the reference set gives {}", op.text(), out.result, e) });
            }
        }
        if op.name != "init" && q != exp {
            f.push(Finding { property: "C02", what: format!("after `{}` contains() reports the members {:?}, the reference set has {:?}", op.text(), q, exp) });
        }
        // values outside the universe may be members (bulk operations): sizes are counted relative to the size before
        let delta: usize = if op.name == "bulk" || op.name == "bulkrem" { out.result.parse().unwrap_or(0) } else { 0 };
        let want_size = match op.name {
            "init" => 0,
            "bulk" => msize + delta,
            "bulkrem" => msize.saturating_sub(delta),
            _ => (msize + exp.len()).saturating_sub(m.len()),
        };
        if qsize != want_size {
            f.push(Finding { property: "C02", what: format!("after `{}` size() is {} but the reference set has {} members", op.text(), qsize, want_size) });
        }
        // iteration yields every member exactly once and nothing else
        if op.name != "init" {
            let mut d = items.clone();
            d.sort();
            let n0 = d.len();
            d.dedup();
            if d.len() != n0 {
                f.push(Finding { property: "C02", what: format!("after `{}` iteration yields a value twice: {:?}", op.text(), &items[..items.len().min(40)]) });
            }
            if items.len() != qsize {
                f.push(Finding { property: "C02", what: format!("after `{}` iteration yields {} values but size() is {}", op.text(), items.len(), qsize) });
            }
            let iu: BTreeSet<i128> = d.iter().copied().filter(|v| self.vals.contains(v)).collect();
            if iu != q {
                f.push(Finding { property: "C02", what: format!("after `{}` iteration yields the universe values {:?} but the members are {:?}", op.text(), iu, q) });
            }
        }
        f
    }
    fn classify(&self, pre: &[u8], op: &Op, out: &OpOut, _post: &[u8]) -> Vec<&'static str> {
        let mut c = vec![];
        let dp = hdecode::<A>(pre);
        let Ok(m) = dp.members() else { return c };
        let x = op.args.first().copied().unwrap_or(0);
        match op.name {
            "ins" => {
                if out.result == "true" {
                    c.push("ins:ok");
                    let b = if dp.cap > 0 { (A::hash_of(x) as u32 % dp.cap as u32) as usize } else { 0 };
                    let n = m.iter().filter(|e| e.0 == b).count();
                    if n >= 1 { c.push("ins:collision") }
                    if n >= 2 { c.push("ins:collision-chain>=2") }
                    if dp.flh != dp.seq { c.push("ins:reuses-recycled-slot") }
                } else if m.iter().any(|e| e.2 == x) {
                    c.push("ins:duplicate")
                } else {
                    c.push("ins:full")
                }
            }
            "rem" => match m.iter().find(|e| e.2 == x) {
                None => c.push("rem:absent"),
                Some((b, pos, _)) => {
                    let n = m.iter().filter(|e| e.0 == *b).count();
                    if n == 1 { c.push("rem:only-in-chain") }
                    else if *pos == 0 { c.push("rem:chain-head") }
                    else if *pos == n - 1 { c.push("rem:chain-tail") }
                    else { c.push("rem:chain-middle") }
                }
            },
            _ => {}
        }
        c
    }
    fn record_bytes(&self) -> Option<usize> {
        Some(A::data_len(1) - A::data_len(0))
    }
    fn nontrivial(&self, state: &[u8]) -> bool {
        let d = hdecode::<A>(state);
        match d.members() {
            Ok(m) => {
                let mut counts = vec![0usize; d.slots.max(1)];
                for e in &m { counts[e.0] += 1; }
                counts.iter().any(|c| *c >= 2) && d.flh != d.seq
            }
            Err(_) => false,
        }
    }
}
