//! AVL trees (both index widths) behind the exploration engine.

use crate::engine::*;
use crate::nums::*;
use crate::util::*;
use std::collections::BTreeMap;
use std::marker::PhantomData;
use stevia::collections::{AVLTree, AVLTreeMut, U8AVLTree, U8AVLTreeMut};

/// Static description + entry points of one tree instantiation.
pub trait TreeApi {
    const IW: usize;
    const HDR: usize;
    fn label() -> String;
    /// number of low bytes of the key that its ordering looks at (all of them except for `IdTag`)
    fn key_bytes() -> usize {
        if Self::label().contains("idtag") { 4 } else { Self::key().0 }
    }
    fn key() -> (usize, usize, bool);
    fn val() -> (usize, usize, bool);
    fn data_len(cap: usize) -> usize;
    /// Apply `op` through a fresh handle; may panic.
    fn call(bytes: &mut [u8], op: &Op) -> String;
    /// Apply all `ops` through ONE mutable handle; may panic.
    fn session(bytes: &mut [u8], ops: &[Op]) -> Vec<String>;
}

fn opt<T: ToString>(o: Option<T>) -> String {
    match o {
        Some(x) => format!("some {}", x.to_string()),
        None => "none".to_string(),
    }
}

macro_rules! tree_api {
    ($name:ident, $mut:ident, $ro:ident, $iw:expr, $hdr:expr, $cap:ty, $K:ty, $V:ty) => {
        pub struct $name;
        impl TreeApi for $name {
            const IW: usize = $iw;
            const HDR: usize = $hdr;
            fn label() -> String {
                format!("{}<{},{}>", stringify!($mut), <$K as Num>::NAME, <$V as Num>::NAME)
            }
            fn key() -> (usize, usize, bool) {
                (<$K as Num>::SIZE, <$K as Num>::ALIGN, <$K as Num>::SIGNED)
            }
            fn val() -> (usize, usize, bool) {
                (<$V as Num>::SIZE, <$V as Num>::ALIGN, <$V as Num>::SIGNED)
            }
            fn data_len(cap: usize) -> usize {
                $mut::<$K, $V>::data_len(cap)
            }
            fn session(bytes: &mut [u8], ops: &[Op]) -> Vec<String> {
                let mut t = $mut::<$K, $V>::from_bytes_mut(bytes);
                let mut out = vec![];
                for op in ops {
                    let k = |i: usize| <$K as Num>::from_i(op.args[i]);
                    let v = |i: usize| <$V as Num>::from_i(op.args[i]);
                    out.push(match op.name {
                        "init" => {
                            t.initialize(op.args[0] as $cap);
                            "-".to_string()
                        }
                        "ins" => opt(t.insert(k(0), v(1))),
                        "rem" => opt(t.remove(&k(0)).map(|x| x.to_i())),
                        "get" | "rget" => opt(t.get(&k(0)).map(|x| x.to_i())),
                        "has" | "rhas" => t.contains(&k(0)).to_string(),
                        "upd" => match t.get_mut(&k(0)) {
                            Some(r) => {
                                *r = v(1);
                                "true".to_string()
                            }
                            None => "false".to_string(),
                        },
                        "gmq" => opt(t.get_mut(&k(0)).map(|x| x.to_i())),
                        "low" | "rlow" => opt(t.lowest().map(|x| x.to_i())),
                        "len" | "rlen" => t.len().to_string(),
                        "cap" | "rcap" => t.capacity().to_string(),
                        "full" | "rfull" => t.is_full().to_string(),
                        "empty" | "rempty" => t.is_empty().to_string(),
                        other => panic!("op {other} not possible in a session"),
                    });
                }
                out
            }
            fn call(bytes: &mut [u8], op: &Op) -> String {
                let k = |i: usize| <$K as Num>::from_i(op.args[i]);
                let v = |i: usize| <$V as Num>::from_i(op.args[i]);
                match op.name {
                    "init" => {
                        let mut t = $mut::<$K, $V>::from_bytes_mut(bytes);
                        t.initialize(op.args[0] as $cap);
                        "-".into()
                    }
                    "open" => {
                        let _t = $mut::<$K, $V>::from_bytes_mut(bytes);
                        "-".into()
                    }
                    "ins" => opt($mut::<$K, $V>::from_bytes_mut(bytes).insert(k(0), v(1))),
                    "rem" => opt($mut::<$K, $V>::from_bytes_mut(bytes).remove(&k(0)).map(|x| x.to_i())),
                    "get" => opt($mut::<$K, $V>::from_bytes_mut(bytes).get(&k(0)).map(|x| x.to_i())),
                    "has" => $mut::<$K, $V>::from_bytes_mut(bytes).contains(&k(0)).to_string(),
                    "upd" => {
                        let mut t = $mut::<$K, $V>::from_bytes_mut(bytes);
                        match t.get_mut(&k(0)) {
                            Some(r) => {
                                *r = v(1);
                                "true".into()
                            }
                            None => "false".into(),
                        }
                    }
                    "gmq" => opt($mut::<$K, $V>::from_bytes_mut(bytes).get_mut(&k(0)).map(|x| x.to_i())),
                    "low" => opt($mut::<$K, $V>::from_bytes_mut(bytes).lowest().map(|x| x.to_i())),
                    "len" => $mut::<$K, $V>::from_bytes_mut(bytes).len().to_string(),
                    "cap" => $mut::<$K, $V>::from_bytes_mut(bytes).capacity().to_string(),
                    "full" => $mut::<$K, $V>::from_bytes_mut(bytes).is_full().to_string(),
                    "empty" => $mut::<$K, $V>::from_bytes_mut(bytes).is_empty().to_string(),
                    "rget" => opt($ro::<$K, $V>::from_bytes(bytes).get(&k(0)).map(|x| x.to_i())),
                    "rhas" => $ro::<$K, $V>::from_bytes(bytes).contains(&k(0)).to_string(),
                    "rlow" => opt($ro::<$K, $V>::from_bytes(bytes).lowest().map(|x| x.to_i())),
                    "rlen" => $ro::<$K, $V>::from_bytes(bytes).len().to_string(),
                    "rcap" => $ro::<$K, $V>::from_bytes(bytes).capacity().to_string(),
                    "rfull" => $ro::<$K, $V>::from_bytes(bytes).is_full().to_string(),
                    "rempty" => $ro::<$K, $V>::from_bytes(bytes).is_empty().to_string(),
                    "dlen" => $mut::<$K, $V>::data_len(op.args[0] as usize).to_string(),
                    "bulk" => {
                        // many insertions through one handle (large collections without per-operation overhead)
                        let mut t = $mut::<$K, $V>::from_bytes_mut(bytes);
                        let mut n = 0usize;
                        for j in 0..op.args[1] {
                            if t.insert(<$K as Num>::from_i(op.args[0] + j), <$V as Num>::from_i(j & 0x7f)).is_some() {
                                n += 1;
                            }
                        }
                        n.to_string()
                    }
                    "bulkrem" => {
                        let mut t = $mut::<$K, $V>::from_bytes_mut(bytes);
                        let mut n = 0usize;
                        for j in 0..op.args[1] {
                            if t.remove(&<$K as Num>::from_i(op.args[0] + j)).is_some() {
                                n += 1;
                            }
                        }
                        n.to_string()
                    }
                    "initfill" => {
                        // probe on a private copy, ONE handle: initialize(cap) with cap possibly below the number of
                        // records, then insert fresh keys until refused (the header capacity is not re-synchronised
                        // with the record count in between, as it would be by a re-open)
                        let mut copy = ABuf::new_skewed(bytes, 2, 0x5b, (bytes.as_ptr() as usize) % 16);
                        let mut n = 0usize;
                        {
                            let mut t = $mut::<$K, $V>::from_bytes_mut(copy.bytes_mut());
                            t.initialize(op.args[0] as $cap);
                            let base = op.args[1];
                            let lim = op.args[2];
                            let mut j = 0i128;
                            while j < lim {
                                let key = <$K as Num>::from_i(base + j);
                                if t.insert(key, <$V as Num>::from_i(1 + j)).is_none() {
                                    break;
                                }
                                n += 1;
                                j += 1;
                            }
                        }
                        n.to_string()
                    }
                    "fill" => {
                        // probe on a private copy: insert fresh keys until refused
                        let mut copy = ABuf::new_skewed(bytes, 1, 0x77, (bytes.as_ptr() as usize) % 16);
                        let mut n = 0usize;
                        {
                            let mut t = $mut::<$K, $V>::from_bytes_mut(copy.bytes_mut());
                            let base = op.args[0];
                            let lim = op.args[1];
                            let mut j = 0i128;
                            while j < lim {
                                let key = <$K as Num>::from_i(base + j);
                                if t.insert(key, <$V as Num>::from_i(1 + j)).is_none() {
                                    break;
                                }
                                n += 1;
                                j += 1;
                            }
                        }
                        n.to_string()
                    }
                    other => panic!("unknown op {other}"),
                }
            }
        }
    };
}

tree_api!(T8u8u8, U8AVLTreeMut, U8AVLTree, 1, 8, u8, u8, u8);
tree_api!(T8u8u64, U8AVLTreeMut, U8AVLTree, 1, 8, u8, u8, u64);
tree_api!(T8u64u8, U8AVLTreeMut, U8AVLTree, 1, 8, u8, u64, u8);
tree_api!(T8u32u16, U8AVLTreeMut, U8AVLTree, 1, 8, u8, u32, u16);
tree_api!(T8i64u64, U8AVLTreeMut, U8AVLTree, 1, 8, u8, i64, u64);
tree_api!(T8logu8, U8AVLTreeMut, U8AVLTree, 1, 8, u8, LogKey, u8);
tree_api!(T32u8u8, AVLTreeMut, AVLTree, 4, 24, u32, u8, u8);
tree_api!(T32u8u64, AVLTreeMut, AVLTree, 4, 24, u32, u8, u64);
tree_api!(T32u64u8, AVLTreeMut, AVLTree, 4, 24, u32, u64, u8);
tree_api!(T32u32u16, AVLTreeMut, AVLTree, 4, 24, u32, u32, u16);
tree_api!(T32u64u64, AVLTreeMut, AVLTree, 4, 24, u32, u64, u64);
tree_api!(T32i64u64, AVLTreeMut, AVLTree, 4, 24, u32, i64, u64);
tree_api!(T32logu8, AVLTreeMut, AVLTree, 4, 24, u32, LogKey, u8);
tree_api!(T32a32u64, AVLTreeMut, AVLTree, 4, 24, u32, A32, u64);
tree_api!(T32u128u64, AVLTreeMut, AVLTree, 4, 24, u32, u128, u64);
tree_api!(T32u32bps, AVLTreeMut, AVLTree, 4, 24, u32, u32, Bps);
tree_api!(T32idtagu8, AVLTreeMut, AVLTree, 4, 24, u32, IdTag, u8);
tree_api!(T8b3b12, U8AVLTreeMut, U8AVLTree, 1, 8, u8, B3, B12);
tree_api!(T32b3u32, AVLTreeMut, AVLTree, 4, 24, u32, B3, u32);
tree_api!(T32u32unit, AVLTreeMut, AVLTree, 4, 24, u32, u32, ());
tree_api!(T8u8unit, U8AVLTreeMut, U8AVLTree, 1, 8, u8, u8, ());
tree_api!(T8idtagu8, U8AVLTreeMut, U8AVLTree, 1, 8, u8, IdTag, u8);
tree_api!(T8u8bps, U8AVLTreeMut, U8AVLTree, 1, 8, u8, u8, Bps);
tree_api!(T8u128u8, U8AVLTreeMut, U8AVLTree, 1, 8, u8, u128, u8);
tree_api!(T8a32a32, U8AVLTreeMut, U8AVLTree, 1, 8, u8, A32, A32);

/// Independent reading of the documented format (harness-side; used for the
/// implementation-vs-oracle checks and the coverage histogram — the Lean
/// decoder is the one the theorems are about).
pub struct Decoded {
    pub root: usize,
    pub size: usize,
    pub cap: usize,
    pub flh: usize,
    pub seq: usize,
    pub slots: usize,
    /// mask selecting the part of a key its ordering looks at
    pub kmask: i128,
    /// per slot (1-based index - 1): left, right, height, key, value
    pub recs: Vec<(usize, usize, usize, i128, i128)>,
}

fn le(bytes: &[u8]) -> u128 {
    let mut x = 0u128;
    for (i, b) in bytes.iter().enumerate() {
        x |= (*b as u128) << (8 * i);
    }
    x
}

fn align_up(x: usize, a: usize) -> usize {
    (x + a - 1) / a * a
}

pub fn decode<A: TreeApi>(bytes: &[u8]) -> Decoded {
    let iw = A::IW;
    let (ks, ka, ksg) = A::key();
    let (vs, va, _) = A::val();
    let koff = align_up(4 * iw, ka);
    let voff = align_up(koff + ks, va);
    let rsz = align_up(voff + vs, iw.max(ka).max(va));
    let w = |j: usize| le(&bytes[j * iw..(j + 1) * iw]) as usize;
    let slots = (bytes.len() - A::HDR) / rsz;
    let mut recs = vec![];
    for s in 0..slots {
        let b = &bytes[A::HDR + s * rsz..A::HDR + (s + 1) * rsz];
        let r = |j: usize| le(&b[j * iw..(j + 1) * iw]) as usize;
        let mut key = le(&b[koff..koff + ks.min(15)]) as i128;
        if ksg && ks < 16 && (key >> (8 * ks - 1)) & 1 == 1 {
            key -= 1i128 << (8 * ks);
        }
        recs.push((r(0), r(1), r(2), key, le(&b[voff..voff + vs.min(15)]) as i128));
    }
    let kb = A::key_bytes();
    let kmask = if kb >= 15 || ksg { -1i128 } else { (1i128 << (8 * kb)) - 1 };
    Decoded { root: w(0), size: w(1), cap: w(2), flh: w(3), seq: w(4), slots, kmask, recs }
}

impl Decoded {
    /// In-order walk with structural checks. Returns (entries, height) or an error text.
    pub fn check(&self) -> Result<Vec<(usize, i128, i128)>, String> {
        let mut seen = vec![false; self.slots + 1];
        let mut out = vec![];
        fn go(d: &Decoded, i: usize, seen: &mut Vec<bool>, out: &mut Vec<(usize, i128, i128)>, depth: usize) -> Result<usize, String> {
            if i == 0 {
                return Ok(0);
            }
            if i > d.slots {
                return Err(format!("index {i} beyond the {} records", d.slots));
            }
            if seen[i] {
                return Err(format!("record {i} reached twice"));
            }
            if depth > 80 {
                return Err("depth > 80".into());
            }
            seen[i] = true;
            let (l, r, h, k, v) = d.recs[i - 1];
            let hl = go(d, l, seen, out, depth + 1)?;
            out.push((i, k, v));
            let hr = go(d, r, seen, out, depth + 1)?;
            if hl > hr + 1 || hr > hl + 1 {
                return Err(format!("record {i} (key {k}) unbalanced: subtree heights {hl} and {hr}"));
            }
            let hh = hl.max(hr) + 1;
            if h + 1 != hh {
                return Err(format!("record {i} stores height register {h} but its subtree has {hh} levels (register should be {})", hh - 1));
            }
            Ok(hh)
        }
        go(self, self.root, &mut seen, &mut out, 0)?;
        for w in out.windows(2) {
            if !((w[0].1 & self.kmask) < (w[1].1 & self.kmask)) {
                return Err(format!("keys out of order: {} then {}", w[0].1, w[1].1));
            }
        }
        if out.len() != self.size {
            return Err(format!("size word {} but {} reachable nodes", self.size, out.len()));
        }
        Ok(out)
    }
    pub fn children(&self, key: i128) -> Option<(usize, usize)> {
        let mut i = self.root;
        let key = key & self.kmask;
        while i != 0 && i <= self.slots {
            let (l, r, _, k, _) = self.recs[i - 1];
            let k = k & self.kmask;
            if key < k {
                i = l
            } else if key > k {
                i = r
            } else {
                return Some((l, r));
            }
        }
        None
    }
}

pub struct TreeSut<A: TreeApi> {
    pub slots: usize,
    pub init_cap: usize,
    pub max_slots: usize,
    pub keys: Vec<i128>,
    /// value written by insert / by update for key index j
    pub updates: bool,
    pub ro_queries: bool,
    pub fresh_base: i128,
    pub fill: bool,
    pub _p: PhantomData<A>,
}

impl<A: TreeApi> TreeSut<A> {
    fn keyed() -> bool {
        A::key_bytes() < A::key().0
    }
    fn key_of(k: i128) -> i128 {
        if Self::keyed() { k & ((1i128 << (8 * A::key_bytes())) - 1) } else { k }
    }
    fn rec_size(&self) -> usize {
        A::data_len(1) - A::data_len(0)
    }
    fn vmask(&self) -> i128 {
        let (vs, _, _) = A::val();
        if vs >= 16 { i128::MAX } else { (1i128 << (8 * vs)) - 1 }
    }
    fn ins_val(&self, k: i128) -> i128 {
        (k.wrapping_mul(7) + 3) & self.vmask() & 0x7f
    }
    fn upd_val(&self, k: i128) -> i128 {
        ((k.wrapping_mul(7) + 3) & 0x7f) ^ 0x80 & self.vmask()
    }
    fn slots_of(&self, state: &[u8]) -> usize {
        (state.len() - A::HDR) / self.rec_size()
    }
    /// What the API itself reports about a state (read-only view, on a private copy):
    /// `get` for every key of the universe, `len`, `capacity`. `None` if a query panics.
    fn api_contents(&self, state: &[u8]) -> Option<(BTreeMap<i128, i128>, usize, usize)> {
        let mut copy = ABuf::new_skewed(state, 2, 0x11, self.skew());
        let r = guarded(|| {
            let mut m = BTreeMap::new();
            for k in &self.keys {
                let r = A::call(copy.bytes_mut(), &Op::new("rget", &[*k]));
                if let Some(v) = r.strip_prefix("some ") {
                    m.insert(*k, v.parse::<i128>().unwrap());
                }
            }
            let len: usize = A::call(copy.bytes_mut(), &Op::new("rlen", &[])).parse().unwrap();
            let cap: usize = A::call(copy.bytes_mut(), &Op::new("rcap", &[])).parse().unwrap();
            (m, len, cap)
        });
        r.ok()
    }
    pub fn parse(&self, l: &str) -> Option<Op> {
        let mut it = l.split_whitespace();
        let name = it.next()?;
        const NAMES: &[&str] = &[
            "init", "open", "ins", "rem", "get", "has", "upd", "gmq", "low", "len", "cap", "full", "empty", "rget", "rhas", "rlow", "rlen", "rcap",
            "rfull", "rempty", "fill", "ext", "dlen", "bulk", "bulkrem", "initfill",
        ];
        let n = NAMES.iter().find(|n| **n == name)?;
        let args: Vec<i128> = it.filter_map(|a| a.parse().ok()).collect();
        Some(Op { name: n, args, blob: None })
    }
}

/// All height-balanced binary tree shapes with at most `max_nodes` nodes, as nested options.
#[derive(Clone)]
pub enum Shape {
    Nil,
    Node(Box<Shape>, Box<Shape>),
}

fn shapes_of_height(h: usize, max_nodes: usize, memo: &mut Vec<Option<Vec<(Shape, usize)>>>) -> Vec<(Shape, usize)> {
    if let Some(Some(v)) = memo.get(h) {
        return v.clone();
    }
    let v: Vec<(Shape, usize)> = if h == 0 {
        vec![(Shape::Nil, 0)]
    } else {
        let a = shapes_of_height(h - 1, max_nodes, memo);
        let b = if h >= 2 { shapes_of_height(h - 2, max_nodes, memo) } else { vec![] };
        let mut out = vec![];
        let mut push = |l: &(Shape, usize), r: &(Shape, usize)| {
            if l.1 + r.1 + 1 <= max_nodes {
                out.push((Shape::Node(Box::new(l.0.clone()), Box::new(r.0.clone())), l.1 + r.1 + 1));
            }
        };
        for l in &a {
            for r in &a {
                push(l, r);
            }
            for r in &b {
                push(l, r);
            }
        }
        for l in &b {
            for r in &a {
                push(l, r);
            }
        }
        out
    };
    while memo.len() <= h {
        memo.push(None);
    }
    memo[h] = Some(v.clone());
    v
}

/// Keys (in-order: 2, 4, 6, …) of a shape in level order: inserting them in this order reproduces the
/// shape without a single rotation.
fn level_order_keys(s: &Shape) -> Vec<i128> {
    fn number(s: &Shape, next: &mut i128, out: &mut Vec<(usize, i128)>, depth: usize) {
        if let Shape::Node(l, r) = s {
            number(l, next, out, depth + 1);
            out.push((depth, *next));
            *next += 2;
            number(r, next, out, depth + 1);
        }
    }
    let mut v = vec![];
    let mut next = 2;
    number(s, &mut next, &mut v, 0);
    v.sort_by_key(|(d, k)| (*d, *k));
    v.into_iter().map(|(_, k)| k).collect()
}

impl<A: TreeApi> TreeSut<A> {
    /// every AVL shape with at most `max_nodes` nodes x every single insertion (into every gap) and
    /// removal (of every key), plus a lookup of every key
    pub fn shape_cases(&self, max_nodes: usize) -> Vec<(Vec<Op>, Vec<Op>)> {
        let mut memo = vec![];
        let mut cases = vec![];
        for h in 0..=6 {
            for (sh, n) in shapes_of_height(h, max_nodes, &mut memo) {
                let keys = level_order_keys(&sh);
                let mut build = vec![Op::new("init", &[self.init_cap as i128])];
                for k in &keys {
                    build.push(Op::new("ins", &[*k, self.ins_val(*k)]));
                }
                let mut probes = vec![];
                for g in 0..=n {
                    probes.push(Op::new("ins", &[(2 * g + 1) as i128, 1]));
                }
                for k in &keys {
                    probes.push(Op::new("rem", &[*k]));
                    probes.push(Op::new("get", &[*k]));
                }
                probes.push(Op::new("low", &[]));
                cases.push((build, probes));
            }
        }
        cases
    }
}

impl<A: TreeApi> Sut for TreeSut<A> {
    fn cfg_line(&self) -> String {
        let (ks, ka, ksg) = A::key();
        let (vs, va, _) = A::val();
        format!("cfg tree iw={} ksz={} kal={} ksg={} vsz={} val={} label={}", A::IW, ks, ka, ksg as u8, vs, va, A::label().replace(' ', ""))
    }
    fn name(&self) -> String {
        format!("{} slots={} cap={} max_slots={} keys={:?}", A::label(), self.slots, self.init_cap, self.max_slots, self.keys)
    }
    fn initial(&self) -> Vec<u8> {
        vec![0u8; A::data_len(self.slots)]
    }
    fn init_op(&self) -> Option<Op> {
        Some(Op::new("init", &[self.init_cap as i128]))
    }
    fn ops(&self, state: &[u8]) -> Vec<Op> {
        let d = decode::<A>(state);
        let mut v = vec![];
        if self.ro_queries {
            for k in &self.keys {
                v.push(Op::new("rget", &[*k]));
                v.push(Op::new("rhas", &[*k]));
            }
            for n in ["rlow", "rlen", "rcap", "rfull", "rempty"] {
                v.push(Op::new(n, &[]));
            }
        }
        v.push(Op::new("open", &[]));
        if d.slots > d.cap {
            // extended (or under-initialized) buffer: it must be opened mutably first
            return v;
        }
        for k in &self.keys {
            if Self::keyed() {
                // the same id with two different tags: the second is a duplicate carrying other bytes
                v.push(Op::new("ins", &[*k | (1i128 << 32), self.ins_val(*k)]));
                v.push(Op::new("ins", &[*k | (2i128 << 32), self.ins_val(*k)]));
            } else {
                v.push(Op::new("ins", &[*k, self.ins_val(*k)]));
            }
            v.push(Op::new("rem", &[*k]));
            if self.updates {
                v.push(Op::new("upd", &[*k, self.upd_val(*k)]));
            }
            v.push(Op::new("get", &[*k]));
            v.push(Op::new("has", &[*k]));
            v.push(Op::new("gmq", &[*k]));
        }
        for n in ["low", "len", "cap", "full", "empty"] {
            v.push(Op::new(n, &[]));
        }
        v.push(Op::new("dlen", &[(d.size + d.cap) as i128]));
        if d.size == 0 {
            // the pure size formula at large capacities (up to the index type's range)
            for c in [255i128, 256, 65_535, 1 << 27, (1 << 31) - 1, 1 << 31, (1i128 << 32) - 1] {
                v.push(Op::new("dlen", &[c]));
            }
        }
        if self.fill {
            v.push(Op::new("fill", &[self.fresh_base, (d.cap + 2) as i128]));
        }
        if self.fill && d.size == 0 && d.slots >= 2 {
            // a tree initialized with fewer entries than the buffer has records, filled through the same handle
            for c in [0usize, 1, d.slots / 2, d.slots - 1] {
                if c < d.slots {
                    v.push(Op::new("initfill", &[c as i128, self.fresh_base, (d.slots + 2) as i128]));
                }
            }
        }
        if d.slots < self.max_slots {
            v.push(Op::new("ext", &[1]));
            if d.slots + 2 <= self.max_slots {
                v.push(Op::new("ext", &[2]));
            }
        }
        v
    }
    fn random_op(&self, rng: &mut Rng, state: &[u8], phase: usize) -> Op {
        let d = decode::<A>(state);
        if d.slots > d.cap {
            return Op::new("open", &[]);
        }
        let k = self.keys[rng.below(self.keys.len() as u64) as usize];
        let r = rng.below(100);
        // bias towards growth of the tree until it is about full, then churn
        let fullish = d.size * 10 >= d.cap * 8;
        let ins_p = match phase {
            0 => 72,
            2 => 12,
            _ => if fullish { 35 } else { 55 },
        };
        if r < ins_p {
            Op::new("ins", &[k, self.ins_val(k)])
        } else if r < 80 {
            Op::new("rem", &[k])
        } else if r < 85 && self.updates {
            Op::new("upd", &[k, self.upd_val(k)])
        } else if r < 88 {
            Op::new("get", &[k])
        } else if r < 90 {
            Op::new("rget", &[k])
        } else if r < 91 {
            Op::new("has", &[k])
        } else if r < 92 {
            Op::new("low", &[])
        } else if r < 93 {
            Op::new("rlow", &[])
        } else if r < 94 {
            Op::new("len", &[])
        } else if r < 95 {
            Op::new("full", &[])
        } else if r < 96 {
            Op::new("open", &[])
        } else if r < 97 && self.fill {
            Op::new("fill", &[self.fresh_base, (d.cap + 2) as i128])
        } else if r < 99 && d.slots < self.max_slots {
            let room = (self.max_slots - d.slots) as u64;
            // mostly small steps, sometimes many records at once
            let n = if rng.chance(1, 4) { 1 + rng.below(room) } else { 1 + rng.below(room.min(3)) };
            Op::new("ext", &[n as i128])
        } else {
            Op::new("gmq", &[k])
        }
    }
    fn kind(&self, op: &Op) -> Kind {
        match op.name {
            "init" | "open" | "ins" | "rem" | "upd" | "ext" | "bulk" | "bulkrem" => Kind::Mutating,
            _ => Kind::Query,
        }
    }
    fn refused(&self, op: &Op, out: &OpOut) -> bool {
        match op.name {
            "ins" | "rem" => out.result == "none",
            "upd" => out.result == "false",
            _ => false,
        }
    }
    fn skew(&self) -> usize {
        // the records (after the header) must be aligned for the key/value types
        let al = A::IW.max(A::key().1).max(A::val().1);
        (al - A::HDR % al) % al
    }
    fn alt_skew(&self) -> usize {
        let al = A::IW.max(A::key().1).max(A::val().1);
        (self.skew() + al) % 16
    }
    fn preflight(&self) -> Vec<(Finding, Vec<String>)> {
        // data_len(c) against the layout rule, before any buffer is sized with it
        let (ks, ka, _) = A::key();
        let (vs, va, _) = A::val();
        let koff = align_up(4 * A::IW, ka);
        let voff = align_up(koff + ks, va);
        let rec = align_up(voff + vs, A::IW.max(ka).max(va));
        let mut f = vec![];
        for c in [0usize, 1, 2, 7, 255, 4096] {
            let got = guarded(|| A::data_len(c));
            let want = A::HDR + c * rec;
            if got.as_ref().ok() != Some(&want) {
                f.push((Finding { property: "C10", what: format!("data_len({c}) is {:?} but header + records is {want} ({})", got.ok(), A::label()) }, vec![format!("dlen {c}")]));
                break;
            }
        }
        f
    }
    fn sessionable(&self, op: &Op) -> bool {
        !matches!(op.name, "ext" | "open" | "fill" | "dlen" | "bulk" | "bulkrem" | "initfill")
    }
    fn session(&self, buf: &mut ABuf, ops: &[Op]) -> Option<Vec<String>> {
        take_log();
        let r = guarded(|| A::session(buf.bytes_mut(), ops)).ok();
        take_log();
        r
    }
    fn apply(&self, buf: &mut ABuf, op: &Op) -> OpOut {
        if op.name == "ext" {
            buf.extend_zero(op.args[0] as usize * self.rec_size());
            return OpOut { result: "-".into(), ..Default::default() };
        }
        take_log();
        let r = guarded(|| A::call(buf.bytes_mut(), op));
        let log = take_log();
        let trace = log.iter().map(|(c, k)| format!("{c}{k}")).collect::<Vec<_>>().join(",");
        match r {
            Ok(s) => OpOut { result: s, trace, panic: None },
            Err((kind, msg)) => OpOut { result: format!("fault {kind}"), trace, panic: Some(msg) },
        }
    }
    fn oracle(&self, pre: &[u8], op: &Op, out: &OpOut, post: &[u8]) -> Vec<Finding> {
        let mut f = vec![];
        let prop_of = |name: &str| match name {
            "dlen" => "C10",
            "fill" | "initfill" => "C07",
            "open" | "ext" | "cap" | "rcap" => "C08",
            _ => "C01",
        };
        if out.panic.is_some() {
            // besides C12 (reported by the engine) a panic is a wrong answer for the operation's own property
            if op.name != "init" {
                f.push(Finding { property: prop_of(op.name), what: format!("`{}` panicked instead of answering: {}", op.text(), out.panic.clone().unwrap()) });
            }
            return f;
        }
        if op.name == "dlen" {
            // data_len(c) is exactly header plus c records; record size from the layout rule (repr(C):
            // registers, key, value at their alignments), not from data_len itself
            let (ks, ka, _) = A::key();
            let (vs, va, _) = A::val();
            let koff = align_up(4 * A::IW, ka);
            let voff = align_up(koff + ks, va);
            let rec = align_up(voff + vs, A::IW.max(ka).max(va));
            let want = (A::HDR as u128 + op.args[0] as u128 * rec as u128).to_string();
            if want != out.result {
                f.push(Finding { property: "C10", what: format!("data_len({}) is {} but header + records is {}", op.args[0], out.result, want) });
            }
            return f;
        }
        let dp = decode::<A>(pre);
        let dq = decode::<A>(post);
        // C06 / C10: structure of the post state as read by the independent decoder
        let post_entries = match dq.check() {
            Ok(e) => Some(e),
            Err(e) => {
                let p = if e.contains("unbalanced") || e.contains("height register") { "C06" } else { "C10" };
                f.push(Finding { property: p, what: format!("after `{}`: {}", op.text(), e) });
                None
            }
        };
        let pre_entries = dp.check().ok();
        // C01 & co: what the API reports before and after, against the reference map
        let Some((m, mlen, _mcap)) = self.api_contents(pre) else { return f };
        let Some((q, qlen, qcap)) = self.api_contents(post) else {
            f.push(Finding { property: prop_of(op.name), what: format!("after `{}` a read-only query panics", op.text()) });
            f.push(Finding { property: "C04", what: format!("after `{}` the read-only view of the bytes panics on a query", op.text()) });
            return f;
        };
        // C04: the mutable view of the same bytes (when opening it is the identity) reports the same contents
        if dq.slots <= dq.cap {
            let mut copy = ABuf::new_skewed(post, 1, 0x22, self.skew());
            let viaw = guarded(|| {
                let mut m2 = BTreeMap::new();
                for k in &self.keys {
                    if let Some(v) = A::call(copy.bytes_mut(), &Op::new("get", &[*k])).strip_prefix("some ") {
                        m2.insert(*k, v.parse::<i128>().unwrap());
                    }
                }
                (m2, A::call(copy.bytes_mut(), &Op::new("len", &[])))
            });
            let flags = guarded(|| {
                let q = |n: &'static str, c: &mut ABuf| A::call(c.bytes_mut(), &Op::new(n, &[]));
                let mut c2 = ABuf::new_skewed(post, 1, 0x22, self.skew());
                (
                    (q("cap", &mut c2), q("full", &mut c2), q("empty", &mut c2), q("low", &mut c2)),
                    (q("rcap", &mut c2), q("rfull", &mut c2), q("rempty", &mut c2), q("rlow", &mut c2)),
                )
            });
            match flags {
                Ok((mu, ro)) => {
                    if mu != ro {
                        f.push(Finding { property: "C04", what: format!("after `{}` the mutable view answers (capacity, is_full, is_empty, lowest) = {:?} but the read-only view of the same bytes answers {:?}", op.text(), mu, ro) });
                    }
                }
                Err(_) => f.push(Finding { property: "C04", what: format!("after `{}` capacity/is_full/is_empty/lowest panics on one of the views", op.text()) }),
            }
            match viaw {
                Ok((m2, l2)) => {
                    if m2 != q || l2 != qlen.to_string() {
                        f.push(Finding { property: "C04", what: format!("after `{}` the mutable view reports {:?} (len {}) but the read-only view of the same bytes reports {:?} (len {})", op.text(), m2, l2, q, qlen) });
                    }
                    if copy.bytes() != post {
                        f.push(Finding { property: "C04", what: format!("after `{}` re-opening the buffer mutably and querying it changed bytes", op.text()) });
                    }
                }
                Err(_) => f.push(Finding { property: "C04", what: format!("after `{}` the mutable view of the bytes panics on a query", op.text()) }),
            }
        }
        // C10: the decoder recovers exactly the contents the API reports
        if let Some(pe) = &post_entries {
            let dm: BTreeMap<i128, i128> = pe.iter().map(|(_, k, v)| (Self::key_of(*k), *v)).filter(|(k, _)| self.keys.contains(k)).collect();
            if dm != q || pe.len() != qlen {
                f.push(Finding { property: "C10", what: format!("after `{}` the format decoder finds {:?} ({} entries) but the API reports {:?} (len {})", op.text(), dm, pe.len(), q, qlen) });
            }
        }
        let mut exp = m.clone();
        let opened = matches!(self.kind(op), Kind::Mutating) && op.name != "ext" && op.name != "init";
        let cap = dp.cap.max(if opened { dp.slots } else { 0 });
        let full = mlen >= cap;
        let kfull = op.args.first().copied().unwrap_or(0);
        let k = Self::key_of(kfull);
        let expected: Option<String> = match op.name {
            "ins" => {
                if m.contains_key(&k) || full {
                    Some("none".into())
                } else {
                    exp.insert(k, op.args[1]);
                    None // slot index checked below
                }
            }
            "rem" => Some(opt(exp.remove(&k))),
            "get" | "rget" | "gmq" => Some(opt(m.get(&k).copied())),
            "has" | "rhas" => Some(m.contains_key(&k).to_string()),
            "upd" => {
                if let Some(v) = exp.get_mut(&k) {
                    *v = op.args[1];
                    Some("true".into())
                } else {
                    Some("false".into())
                }
            }
            "low" | "rlow" => {
                if Self::keyed() {
                    // the stored key carries a tag the reference map does not track: compare ids
                    let got = out.result.strip_prefix("some ").and_then(|s| s.parse::<i128>().ok()).map(Self::key_of);
                    if got != m.keys().next().copied() {
                        f.push(Finding { property: "C01", what: format!("`{}` returned {} but the minimum id is {:?}", op.text(), out.result, m.keys().next()) });
                    }
                    None
                } else {
                    Some(opt(m.keys().next().copied()))
                }
            }
            "len" | "rlen" => Some(mlen.to_string()),
            "cap" => Some(cap.to_string()),
            "rcap" => Some(dp.cap.to_string()),
            "full" => Some(full.to_string()),
            "rfull" => Some((mlen >= dp.cap).to_string()),
            "empty" | "rempty" => Some((mlen == 0).to_string()),
            "fill" => {
                // stops at the first refusal: the tree is full or the probe key is already present
                let mut n = 0usize;
                while n < cap.saturating_sub(mlen) && (n as i128) < op.args[1] && !m.contains_key(&(op.args[0] + n as i128)) {
                    n += 1;
                }
                Some(n.to_string())
            }
            "init" => {
                exp.clear();
                None
            }
            // exactly `cap` fresh entries fit into a tree initialized with `cap` <= records, whatever the buffer holds beyond
            "initfill" => Some((op.args[0].min(op.args[2]) as usize).to_string()),
            "dlen" => None,
            "bulk" => {
                // ascending fresh keys: the first `n` of them are inserted
                let n = (op.args[1] as usize).min(cap.saturating_sub(mlen));
                for key in self.keys.iter().filter(|k| **k >= op.args[0] && **k < op.args[0] + n as i128) {
                    exp.entry(*key).or_insert((*key - op.args[0]) & 0x7f);
                }
                Some(n.to_string())
            }
            "bulkrem" => {
                for key in self.keys.iter().filter(|k| **k >= op.args[0] && **k < op.args[0] + op.args[1]) {
                    exp.remove(key);
                }
                None
            }
            _ => None,
        };
        let prop = prop_of(op.name);
        if let Some(e) = expected {
            if e != out.result {
                f.push(Finding { property: prop, what: format!("`{}` returned {} but the reference map gives {}", op.text(), out.result, e) });
            }
        } else if op.name == "ins" {
            match out.result.strip_prefix("some ").and_then(|s| s.parse::<usize>().ok()) {
                None => f.push(Finding { property: "C01", what: format!("`{}` refused although the key is absent and {} of {} slots are used", op.text(), mlen, cap) }),
                Some(i) => {
                    if i == 0 || i > dq.slots || dq.recs[i - 1].3 != kfull || dq.recs[i - 1].4 != op.args[1] {
                        f.push(Finding { property: "C10", what: format!("`{}` returned index {} but that record does not hold the entry", op.text(), i) });
                    }
                }
            }
        }
        if op.name != "init" && q != exp {
            let p = if op.name == "open" || op.name == "ext" { "C08" } else { "C01" };
            f.push(Finding { property: p, what: format!("after `{}` the API reports contents {:?}, the reference map has {:?}", op.text(), q, exp) });
        }
        if op.name == "bulk" || op.name == "bulkrem" {
            let delta: usize = out.result.parse().unwrap_or(0);
            let want = if op.name == "bulk" { mlen + delta } else { mlen.saturating_sub(delta) };
            if qlen != want {
                f.push(Finding { property: prop, what: format!("after `{}` (=> {}) len() is {} (expected {})", op.text(), out.result, qlen, want) });
            }
            if let Some(pe) = &post_entries {
                if pe.len() != qlen {
                    f.push(Finding { property: "C10", what: format!("after `{}` the format decoder finds {} entries but len() is {}", op.text(), pe.len(), qlen) });
                }
            }
        } else if op.name != "init" {
            // entries outside the key universe may exist (bulk operations): count relative to the length before
            let want = (mlen + exp.len()).saturating_sub(m.len());
            if qlen != want {
                f.push(Finding { property: prop, what: format!("after `{}` len() is {} but the reference map has {} entries", op.text(), qlen, want) });
            }
        }
        // C01: a refused insert never overwrites an existing entry (stored key and value bytes included)
        if op.name == "ins" && out.result == "none" {
            if let (Some(pe), Some(qe)) = (&pre_entries, &post_entries) {
                if pe != qe {
                    f.push(Finding { property: "C01", what: format!("the refused `{}` changed a stored entry: {:?} -> {:?}", op.text(), pe, qe) });
                }
            }
        }
        // C08: growth adds exactly the new slots
        if op.name == "open" && dp.slots > dp.cap && qcap != dp.slots {
            f.push(Finding { property: "C08", what: format!("re-opening {} records with capacity {} gives capacity {}", dp.slots, dp.cap, qcap) });
        }
        if op.name == "open" && dp.slots <= dp.cap && pre != post {
            f.push(Finding { property: "C04", what: "re-opening a buffer whose size matches its capacity changed bytes".into() });
        }
        // C10: a live entry never moves to another record
        if let (Some(pe), Some(qe)) = (&pre_entries, &post_entries) {
            if op.name != "init" {
                let before: BTreeMap<i128, usize> = pe.iter().map(|(i, k, _)| (Self::key_of(*k), *i)).collect();
                for (i, k2, _) in qe {
                    if let Some(j) = before.get(&Self::key_of(*k2)) {
                        if j != i {
                            f.push(Finding { property: "C10", what: format!("`{}` moved key {} from record {} to record {}", op.text(), k2, j, i) });
                        }
                    }
                }
            }
        }
        f
    }
    fn classify(&self, pre: &[u8], op: &Op, out: &OpOut, post: &[u8]) -> Vec<&'static str> {
        let mut c = vec![];
        let dp = decode::<A>(pre);
        match op.name {
            "ins" => {
                if out.result == "none" {
                    if dp.children(op.args[0]).is_some() { c.push("ins:duplicate") } else { c.push("ins:full") }
                } else {
                    c.push("ins:ok");
                    if dp.flh != dp.seq { c.push("ins:reuses-recycled-slot") }
                    let dq = decode::<A>(post);
                    if dq.root != dp.root && dp.root != 0 { c.push("ins:root-rotated") }
                }
            }
            "rem" => match dp.children(op.args[0]) {
                None => c.push("rem:absent"),
                Some((0, 0)) => c.push("rem:leaf"),
                Some((_, 0)) | Some((0, _)) => c.push("rem:one-child"),
                Some((_, r)) => {
                    if dp.recs[r - 1].0 == 0 {
                        c.push("rem:two-children-successor-is-right-child")
                    } else {
                        let rl = dp.recs[r - 1].0;
                        if dp.recs[rl - 1].0 == 0 { c.push("rem:two-children-successor-depth-2") } else { c.push("rem:two-children-successor-depth-3+") }
                    }
                }
            },
            "ext" => {
                if dp.flh != dp.seq { c.push("ext:with-recycled-slots") }
                if dp.seq <= dp.cap { c.push("ext:with-never-used-slots") }
                if dp.size == dp.cap { c.push("ext:full") }
                if dp.size == 0 { c.push("ext:empty") }
            }
            _ => {}
        }
        c
    }
    fn record_bytes(&self) -> Option<usize> {
        Some(self.rec_size())
    }
    fn nontrivial(&self, state: &[u8]) -> bool {
        let d = decode::<A>(state);
        d.size >= 3 && d.flh != d.seq
    }
}
