//! Exploration engine shared by all collections: exhaustive BFS over byte
//! states and seeded random histories, emitting the line protocol the Lean
//! driver consumes, and evaluating the implementation-side oracles
//! (C04 relocation/reopen, C05 guards, C09 byte snapshots, reference
//! collections) on every transition.

use crate::util::*;
use std::collections::HashMap;
use std::io::Write;
use std::sync::Mutex;
use std::time::Instant;

/// What the main thread is executing right now (for the watchdog): start time, pre-state, operation.
pub static WATCH: Mutex<Option<(Instant, String, String)>> = Mutex::new(None);

/// Watchdog: if one operation of the implementation does not return within `limit_s` seconds
/// (an endless loop), write a stats file holding that finding — pre-state and operation are the
/// replay — and exit with status 3.
pub fn start_watchdog(limit_s: u64, stats_path: Option<String>, scope: String) {
    std::thread::spawn(move || loop {
        std::thread::sleep(std::time::Duration::from_millis(200));
        let cur = WATCH.lock().unwrap().clone();
        if let Some((t, pre, op)) = cur {
            if t.elapsed().as_secs() >= limit_s {
                let what = format!("`{}` did not return within {} s (endless loop?)", op, limit_s);
                let hist = format!("[{},{}]", jstr(&format!("state x{}", pre)), jstr(&op));
                let js = format!(
                    "{{\"scope\":{},\"states\":0,\"transitions\":0,\"histories\":0,\"nontrivial_states\":0,\"exhaustive\":false,\"capped\":true,\"hist\":{{}},\"findings\":[{{\"property\":\"C12\",\"what\":{},\"history\":{}}},{{\"property\":\"*\",\"what\":{},\"history\":{}}}],\"samples\":[]}}",
                    jstr(&scope), jstr(&what), hist, jstr(&what), hist
                );
                match &stats_path {
                    Some(p) => {
                        let _ = std::fs::write(p, js);
                    }
                    None => eprintln!("{js}"),
                }
                std::process::exit(3);
            }
        }
    });
}

#[derive(Clone, Debug, PartialEq)]
pub struct Op {
    pub name: &'static str,
    pub args: Vec<i128>,
    /// optional byte-string argument (printed as `x01<hex>`: a sentinel byte, then the bytes)
    pub blob: Option<Vec<u8>>,
}

impl Op {
    pub fn new(name: &'static str, args: &[i128]) -> Op {
        Op { name, args: args.to_vec(), blob: None }
    }
    pub fn with_blob(name: &'static str, args: &[i128], blob: &[u8]) -> Op {
        Op { name, args: args.to_vec(), blob: Some(blob.to_vec()) }
    }
    pub fn text(&self) -> String {
        let mut s = self.name.to_string();
        for a in &self.args {
            s.push(' ');
            s.push_str(&a.to_string());
        }
        if let Some(b) = &self.blob {
            s.push_str(" x01");
            s.push_str(&hex(b));
        }
        s
    }
    /// split the argument words of an op line into integers and an optional blob
    pub fn parse_args(words: &[&str]) -> (Vec<i128>, Option<Vec<u8>>) {
        let mut args = vec![];
        let mut blob = None;
        for w in words {
            if let Some(h) = w.strip_prefix("x01") {
                blob = Some(unhex(h));
            } else if let Ok(v) = w.parse() {
                args.push(v);
            }
        }
        (args, blob)
    }
}

#[derive(Clone, Debug, Default)]
pub struct OpOut {
    /// canonical result text (`none`, `some 3`, `true`, `7`, `-`, `fault overflow`)
    pub result: String,
    /// comparison trace, if the key type is instrumented
    pub trace: String,
    /// panic message if the call panicked
    pub panic: Option<String>,
}

/// What kind of call this was, for the C09 snapshot oracle.
#[derive(Clone, Copy, PartialEq, Debug)]
pub enum Kind {
    /// may change the buffer
    Mutating,
    /// must never change the buffer
    Query,
}

#[derive(Clone, Debug)]
pub struct Finding {
    pub property: &'static str,
    pub what: String,
}

pub trait Sut {
    /// `cfg ...` line for the Lean driver
    fn cfg_line(&self) -> String;
    /// short name for reports
    fn name(&self) -> String;
    /// zero-filled buffer the history starts from
    fn initial(&self) -> Vec<u8>;
    /// the operation that initializes the zero buffer (first op of every history), if any
    fn init_op(&self) -> Option<Op>;
    /// complete list of operations explored from a state (BFS)
    fn ops(&self, state: &[u8]) -> Vec<Op>;
    /// one random operation
    /// `phase`: 0 = grow (towards full), 1 = churn, 2 = drain (towards empty)
    fn random_op(&self, rng: &mut Rng, state: &[u8], phase: usize) -> Op;
    fn kind(&self, op: &Op) -> Kind;
    /// is the result a refusal (operation reports it did nothing)?
    fn refused(&self, op: &Op, out: &OpOut) -> bool;
    /// apply through a fresh handle on `buf` (may grow the buffer)
    fn apply(&self, buf: &mut ABuf, op: &Op) -> OpOut;
    /// reference-collection oracle: evaluate the property on the implementation
    fn oracle(&self, pre: &[u8], op: &Op, out: &OpOut, post: &[u8]) -> Vec<Finding>;
    /// label(s) describing which interesting branch this transition exercised (coverage histogram)
    fn classify(&self, pre: &[u8], op: &Op, out: &OpOut, post: &[u8]) -> Vec<&'static str>;
    /// further initial byte states explored alongside the zero buffer (BFS) / used as random starting points
    fn extra_initials(&self) -> Vec<Vec<u8>> {
        vec![]
    }
    /// Execute `ops` through ONE long-lived mutable handle on `buf` (C04: a handle kept across
    /// operations must behave exactly like dropping and re-opening between them). `None`: the
    /// operation list contains something a single handle cannot do.
    fn session(&self, _buf: &mut ABuf, _ops: &[Op]) -> Option<Vec<String>> {
        None
    }
    /// can `op` be part of a single-handle session? (buffer growth / explicit re-open cannot)
    fn sessionable(&self, _op: &Op) -> bool {
        false
    }
    /// checks that need no state (evaluated once, before the exploration): (finding, replay lines)
    fn preflight(&self) -> Vec<(Finding, Vec<String>)> {
        vec![]
    }
    /// is a panic the documented behaviour of `op` on `pre` (e.g. a buffer shorter than the prefix)?
    fn panic_expected(&self, _pre: &[u8], _op: &Op) -> bool {
        false
    }
    /// property an unexpected panic violates
    fn panic_property(&self) -> &'static str {
        "C12"
    }
    /// byte offset (mod 16) the buffer must start at (alignment of what follows an odd-sized prefix)
    fn skew(&self) -> usize {
        0
    }
    /// start offset (mod 16) of the second execution of every transition: types without alignment
    /// requirements are also run from an odd address
    fn alt_skew(&self) -> usize {
        self.skew()
    }
    /// is this state non-trivial (for the evidence count)?
    fn nontrivial(&self, state: &[u8]) -> bool;
    /// size in bytes of one trailing record / slot of the buffer, if the collection has such (C05: operations on a
    /// buffer that is *shorter* than its header claims may panic but must not touch memory outside it)
    fn record_bytes(&self) -> Option<usize> {
        None
    }
}

/// C05 on mis-sized buffers: the state with its last one / two records cut off (the header still claims them).
/// Every operation is executed twice between different guard patterns; it may panic (a bounds check), but the
/// guards must stay intact and results and bytes must not depend on the adjacent memory.
fn missized_probe(sut: &dyn Sut, pre: &[u8], findings: &mut Vec<Finding>, st: &mut Stats) {
    let Some(rb) = sut.record_bytes() else { return };
    if rb == 0 {
        return;
    }
    for cut in 1..=2usize {
        if pre.len() < cut * rb + 1 {
            break;
        }
        let short = &pre[..pre.len() - cut * rb];
        let all_ops = sut.ops(pre);
        let stride = std::cmp::max(1, all_ops.len() / 48);
        for op in all_ops.into_iter().step_by(stride) {
            if matches!(op.name, "ext" | "fill" | "bulk" | "bulkrem" | "dlen" | "init") {
                continue;
            }
            if let Ok(j) = std::env::var("VERIF_JOURNAL_PROBE") {
                let _ = std::fs::write(j, format!("# the buffer is {} record(s) shorter than its header claims\nstate x{}\n{}\n", cut, hex(short), op.text()));
            }
            let mut a = ABuf::new_skewed(short, cut % 3, 0xA5, sut.skew());
            let out_a = sut.apply(&mut a, &op);
            let mut b = ABuf::new_skewed(short, (cut + 1) % 3 + 1, 0x3C, sut.alt_skew());
            let out_b = sut.apply(&mut b, &op);
            st.bump("missized:ops");
            if out_a.panic.is_some() {
                st.bump("missized:panics");
            }
            if !a.guards_ok() || !b.guards_ok() {
                findings.push(Finding {
                    property: "C05",
                    what: format!("bytes outside the buffer modified by `{}` on a buffer {} record(s) shorter than its header claims", op.text(), cut),
                });
                return;
            }
            if out_a.result != out_b.result || a.bytes() != b.bytes() {
                findings.push(Finding {
                    property: "C05",
                    what: format!(
                        "`{}` on a buffer {} record(s) shorter than its header claims depends on adjacent memory: {:?} vs {:?}",
                        op.text(), cut, out_a.result, out_b.result
                    ),
                });
                return;
            }
        }
    }
}

#[derive(Default)]
pub struct Stats {
    pub states: usize,
    pub transitions: usize,
    pub histories: usize,
    pub nontrivial_states: usize,
    pub hist: HashMap<String, usize>,
    pub findings: Vec<(Finding, Vec<String>)>,
    pub samples: Vec<String>,
    pub exhaustive: bool,
    pub capped: bool,
}

impl Stats {
    /// Findings are capped per property, so that a flood of findings of one property cannot hide another's.
    pub fn room(&self, prop: &str, max: usize) -> bool {
        self.findings.iter().filter(|(f, _)| f.property == prop).count() < max
    }
    pub fn bump(&mut self, k: &str) {
        *self.hist.entry(k.to_string()).or_insert(0) += 1;
    }
    pub fn to_json(&self, name: &str) -> String {
        let mut keys: Vec<_> = self.hist.iter().collect();
        keys.sort();
        let hist = keys.iter().map(|(k, v)| format!("{}:{}", jstr(k), v)).collect::<Vec<_>>().join(",");
        let findings = self
            .findings
            .iter()
            .map(|(f, h)| {
                format!(
                    "{{\"property\":{},\"what\":{},\"history\":[{}]}}",
                    jstr(f.property),
                    jstr(&f.what),
                    h.iter().map(|s| jstr(s)).collect::<Vec<_>>().join(",")
                )
            })
            .collect::<Vec<_>>()
            .join(",");
        let samples = self.samples.iter().map(|s| jstr(s)).collect::<Vec<_>>().join(",");
        format!(
            "{{\"scope\":{},\"states\":{},\"transitions\":{},\"histories\":{},\"nontrivial_states\":{},\"exhaustive\":{},\"capped\":{},\"hist\":{{{}}},\"findings\":[{}],\"samples\":[{}]}}",
            jstr(name), self.states, self.transitions, self.histories, self.nontrivial_states,
            self.exhaustive, self.capped, hist, findings, samples
        )
    }
}

pub struct Limits {
    pub max_states: usize,
    pub max_transitions: usize,
    pub max_findings: usize,
    pub missized: bool,
}

impl Default for Limits {
    fn default() -> Self {
        Limits { max_states: 400_000, max_transitions: 6_000_000, max_findings: 20, missized: false }
    }
}

/// Apply `op` to a copy of `pre` twice: at two different addresses, between two
/// different guard patterns. Evaluates C04 (relocation independence), C05
/// (guards, independence of adjacent bytes), C09 (snapshot), C12 (no panic).
fn transition(
    sut: &dyn Sut,
    pre: &[u8],
    op: &Op,
    salt: usize,
    findings: &mut Vec<Finding>,
) -> (OpOut, Vec<u8>) {
    *WATCH.lock().unwrap() = Some((Instant::now(), hex(pre), op.text()));
    if let Ok(j) = std::env::var("VERIF_JOURNAL") {
        // journal the operation before executing it, so that an abort (Miri, a crash) is attributable
        let _ = std::fs::write(j, format!("state x{}\n{}\n", hex(pre), op.text()));
    }
    let mut a = ABuf::new_skewed(pre, salt % 3, 0xA5, sut.skew());
    let out_a = sut.apply(&mut a, op);
    let post_a = a.bytes().to_vec();
    if !a.guards_ok() {
        findings.push(Finding { property: "C05", what: format!("bytes outside the buffer modified by `{}`", op.text()) });
    }
    let mut b = ABuf::new_skewed(pre, (salt + 1) % 3 + 1, 0x3C, sut.alt_skew());
    let out_b = sut.apply(&mut b, op);
    let post_b = b.bytes().to_vec();
    if !b.guards_ok() {
        findings.push(Finding { property: "C05", what: format!("bytes outside the buffer modified by `{}`", op.text()) });
    }
    if out_a.result != out_b.result || post_a != post_b {
        // the two runs differ only in address and in the contents of adjacent memory
        findings.push(Finding {
            property: "C05",
            what: format!(
                "`{}` depends on adjacent memory or on the buffer address: result {:?} vs {:?}, post bytes {} vs {}",
                op.text(), out_a.result, out_b.result, hex(&post_a), hex(&post_b)
            ),
        });
        findings.push(Finding {
            property: "C04",
            what: format!("`{}` behaves differently on a relocated copy of the same bytes: {:?} vs {:?}", op.text(), out_a.result, out_b.result),
        });
    }
    if let Some(p) = &out_a.panic {
        if !sut.panic_expected(pre, op) {
            findings.push(Finding { property: sut.panic_property(), what: format!("`{}` panicked: {}", op.text(), p) });
        }
    }
    if (sut.kind(op) == Kind::Query || sut.refused(op, &out_a)) && post_a != pre {
        findings.push(Finding {
            property: "C09",
            what: format!("`{}` => {} changed the buffer: {} -> {}", op.text(), out_a.result, hex(pre), hex(&post_a)),
        });
    }
    findings.extend(sut.oracle(pre, op, &out_a, &post_a));
    *WATCH.lock().unwrap() = None;
    (out_a, post_a)
}

fn history_of(parents: &[(usize, String)], mut id: usize) -> Vec<String> {
    let mut h = vec![];
    while id != 0 {
        let (p, op) = &parents[id];
        h.push(op.clone());
        id = *p;
    }
    h.reverse();
    h
}

/// Exhaustive exploration of the reachable byte states.
pub fn bfs(sut: &dyn Sut, out: &mut dyn Write, limits: &Limits) -> Stats {
    let mut st = Stats::default();
    st.exhaustive = true;
    st.findings.extend(sut.preflight());
    writeln!(out, "{}", sut.cfg_line()).unwrap();
    let mut ids: HashMap<Vec<u8>, usize> = HashMap::new();
    let mut states: Vec<Vec<u8>> = vec![];
    let mut parents: Vec<(usize, String)> = vec![];
    let init = sut.initial();
    ids.insert(init.clone(), 0);
    states.push(init.clone());
    parents.push((0, String::new()));
    writeln!(out, "S 0 {}", hex(&init)).unwrap();
    for e in sut.extra_initials() {
        if !ids.contains_key(&e) {
            let i = states.len();
            ids.insert(e.clone(), i);
            writeln!(out, "S {} {}", i, hex(&e)).unwrap();
            states.push(e);
            parents.push((0, String::new()));
        }
    }
    let mut next = 0usize;
    while next < states.len() {
        let pre = states[next].clone();
        let ops = if next == 0 && sut.init_op().is_some() { vec![sut.init_op().unwrap()] } else { sut.ops(&pre) };
        if sut.nontrivial(&pre) {
            st.nontrivial_states += 1;
        }
        if next % 5 == 1 && limits.missized {
            let mut f = vec![];
            missized_probe(sut, &pre, &mut f, &mut st);
            for fi in f {
                if st.room(fi.property, limits.max_findings) {
                    let mut h = history_of(&parents, next);
                    h.push("# then the buffer is cut short (see the finding)".to_string());
                    st.findings.push((fi, h));
                }
            }
        }
        for op in ops {
            if st.transitions >= limits.max_transitions {
                st.capped = true;
                break;
            }
            let mut f = vec![];
            let (o, post) = transition(sut, &pre, &op, st.transitions, &mut f);
            st.transitions += 1;
            for c in sut.classify(&pre, &op, &o, &post) {
                st.bump(c);
            }
            st.bump(&format!("op:{}", op.name));
            let post_id = match ids.get(&post) {
                Some(i) => *i,
                None => {
                    let i = states.len();
                    if i >= limits.max_states {
                        st.capped = true;
                        usize::MAX
                    } else {
                        ids.insert(post.clone(), i);
                        states.push(post.clone());
                        parents.push((next, op.text()));
                        writeln!(out, "S {} {}", i, hex(&post)).unwrap();
                        i
                    }
                }
            };
            if post_id == usize::MAX {
                continue;
            }
            writeln!(out, "O {} {} => {} ; {} ; {}", next, op.text(), o.result, post_id, o.trace).unwrap();
            if st.samples.len() < 5 && st.transitions % 977 == 5 {
                st.samples.push(format!("{} | {} => {} | {}", hex(&pre), op.text(), o.result, hex(&post)));
            }
            for fi in f {
                if st.room(fi.property, limits.max_findings) {
                    let mut h = history_of(&parents, next);
                    h.push(op.text());
                    st.findings.push((fi, h));
                }
            }
        }
        if st.capped {
            break;
        }
        next += 1;
    }
    if st.capped {
        st.exhaustive = false;
    }
    st.states = states.len();
    st
}

/// Seeded random histories. `checkpoint`: emit the bytes every that many
/// operations (1 = after every operation).
pub fn random(
    sut: &dyn Sut,
    out: &mut dyn Write,
    seed: u64,
    histories: usize,
    length: usize,
    checkpoint: usize,
    limits: &Limits,
) -> Stats {
    let mut st = Stats::default();
    st.findings.extend(sut.preflight());
    let mut rng = Rng::new(seed);
    writeln!(out, "{}", sut.cfg_line()).unwrap();
    let mut sid = 0usize;
    for h in 0..histories {
        let mut cur = sut.initial();
        let mut hist: Vec<String> = vec![];
        writeln!(out, "S {} {}", sid, hex(&cur)).unwrap();
        let mut cur_id: Option<usize> = Some(sid);
        sid += 1;
        st.states += 1;
        let n = if length > 4 { length / 2 + rng.below((length / 2 + 1) as u64) as usize } else { length };
        // C04: segments of the history are replayed through one long-lived handle
        let mut seg_start: Vec<u8> = cur.clone();
        let mut seg_ops: Vec<Op> = vec![];
        let mut seg_res: Vec<String> = vec![];
        for step in 0..n {
            let op = if step == 0 && sut.init_op().is_some() { sut.init_op().unwrap() } else { sut.random_op(&mut rng, &cur, (step * 5 / n.max(1)) % 3) };
            let mut f = vec![];
            let (o, post) = transition(sut, &cur, &op, st.transitions, &mut f);
            st.transitions += 1;
            hist.push(op.text());
            for c in sut.classify(&cur, &op, &o, &post) {
                st.bump(c);
            }
            st.bump(&format!("op:{}", op.name));
            let emit = checkpoint <= 1 || (step + 1) % checkpoint == 0 || step + 1 == n;
            let pre_tok = match cur_id {
                Some(i) => i.to_string(),
                None => "^".to_string(),
            };
            let post_tok = if emit {
                writeln!(out, "S {} {}", sid, hex(&post)).unwrap();
                let t = sid.to_string();
                cur_id = Some(sid);
                sid += 1;
                st.states += 1;
                t
            } else {
                cur_id = None;
                "?".to_string()
            };
            writeln!(out, "O {} {} => {} ; {} ; {}", pre_tok, op.text(), o.result, post_tok, o.trace).unwrap();
            if sut.nontrivial(&post) {
                st.nontrivial_states += 1;
            }
            if st.samples.len() < 3 && step == n - 1 {
                st.samples.push(format!("history {}: {}", h, hist.join(", ")));
            }
            for fi in f {
                if st.room(fi.property, limits.max_findings) {
                    st.findings.push((fi, hist.clone()));
                }
            }
            if limits.missized && step % 150 == 7 {
                let mut f2 = vec![];
                missized_probe(sut, &post, &mut f2, &mut st);
                for fi in f2 {
                    if st.room(fi.property, limits.max_findings) {
                        let mut h = hist.clone();
                        h.push("# then the buffer is cut short (see the finding)".to_string());
                        st.findings.push((fi, h));
                    }
                }
            }
            let panicked = o.panic.is_some();
            if sut.sessionable(&op) && !panicked {
                seg_ops.push(op.clone());
                seg_res.push(o.result.clone());
            }
            let flush = !sut.sessionable(&op) || panicked || step + 1 == n || seg_ops.len() >= 64;
            if flush {
                if seg_ops.len() >= 2 {
                    let end_bytes = if sut.sessionable(&op) && !panicked { &post } else { &cur };
                    let mut sb = ABuf::new_skewed(&seg_start, 3, 0x66, sut.skew());
                    if let Some(res) = sut.session(&mut sb, &seg_ops) {
                        st.bump("session:segments");
                        if res != seg_res || sb.bytes() != &end_bytes[..] {
                            let at = res.iter().zip(seg_res.iter()).position(|(a, b)| a != b);
                            let what = match at {
                                Some(j) => format!("one long-lived handle answers `{}` with {} but re-opening before every operation gives {}", seg_ops[j].text(), res[j], seg_res[j]),
                                None => format!("after {} operations through one long-lived handle the bytes differ from re-opening before every operation", seg_ops.len()),
                            };
                            if st.room("C04", limits.max_findings) {
                                st.findings.push((Finding { property: "C04", what }, hist.clone()));
                            }
                        }
                    }
                }
                seg_ops.clear();
                seg_res.clear();
                seg_start = post.clone();
            }
            cur = post;
        }
        st.histories += 1;
        if st.findings.len() >= 6 * limits.max_findings {
            break;
        }
    }
    st
}

/// Execute a scripted history (one op text per line), emitting the line protocol; with
/// `verbose` also a human-readable transcript on stderr (replay).
pub fn script(sut: &dyn Sut, parse: &dyn Fn(&str) -> Option<Op>, lines: &[String], out: &mut dyn Write, verbose: bool) -> Stats {
    let mut st = Stats::default();
    writeln!(out, "{}", sut.cfg_line()).unwrap();
    let mut cur = sut.initial();
    let mut sid = 0usize;
    writeln!(out, "S {} {}", sid, hex(&cur)).unwrap();
    let mut hist: Vec<String> = vec![];
    for l in lines {
        if let Some(h) = l.trim().strip_prefix("state x") {
            cur = unhex(h);
            sid += 1;
            writeln!(out, "S {} {}", sid, hex(&cur)).unwrap();
            continue;
        }
        let Some(op) = parse(l) else {
            if verbose {
                eprintln!("(skipping unparsable line: {l})");
            }
            continue;
        };
        let mut f = vec![];
        let (o, post) = transition(sut, &cur, &op, st.transitions, &mut f);
        st.transitions += 1;
        hist.push(op.text());
        sid += 1;
        writeln!(out, "S {} {}", sid, hex(&post)).unwrap();
        writeln!(out, "O {} {} => {} ; {} ; {}", sid - 1, op.text(), o.result, sid, o.trace).unwrap();
        if verbose {
            eprintln!("{} => {}   bytes {}", op.text(), o.result, hex(&post));
            for fi in &f {
                eprintln!("  FINDING {}: {}", fi.property, fi.what);
            }
        }
        for c in sut.classify(&cur, &op, &o, &post) {
            st.bump(c);
        }
        for fi in f {
            st.findings.push((fi, hist.clone()));
        }
        cur = post;
    }
    st.states = sid + 1;
    st.histories = 1;
    st.samples.push(format!("script: {}", hist.join(", ")));
    st
}

/// For each (build, probes): run `build` sequentially from the zero buffer, then apply every probe
/// operation to (a copy of) the state reached — "every shape followed by every single operation".
pub fn multi_script(sut: &dyn Sut, cases: &[(Vec<Op>, Vec<Op>)], out: &mut dyn Write, limits: &Limits) -> Stats {
    let mut st = Stats::default();
    st.exhaustive = true;
    writeln!(out, "{}", sut.cfg_line()).unwrap();
    let mut sid = 0usize;
    for (build, probes) in cases {
        let mut cur = sut.initial();
        writeln!(out, "S {} {}", sid, hex(&cur)).unwrap();
        let mut cur_id = sid;
        sid += 1;
        let mut hist: Vec<String> = vec![];
        let mut ok = true;
        for op in build {
            let mut f = vec![];
            let (o, post) = transition(sut, &cur, op, st.transitions, &mut f);
            st.transitions += 1;
            hist.push(op.text());
            writeln!(out, "S {} {}", sid, hex(&post)).unwrap();
            writeln!(out, "O {} {} => {} ; {} ; {}", cur_id, op.text(), o.result, sid, o.trace).unwrap();
            cur_id = sid;
            sid += 1;
            for fi in f {
                if st.room(fi.property, limits.max_findings) {
                    st.findings.push((fi, hist.clone()));
                }
            }
            if o.panic.is_some() {
                ok = false;
                break;
            }
            cur = post;
        }
        st.states += 1;
        if sut.nontrivial(&cur) {
            st.nontrivial_states += 1;
        }
        if !ok {
            continue;
        }
        for op in probes {
            let mut f = vec![];
            let (o, post) = transition(sut, &cur, op, st.transitions, &mut f);
            st.transitions += 1;
            for c in sut.classify(&cur, op, &o, &post) {
                st.bump(c);
            }
            writeln!(out, "S {} {}", sid, hex(&post)).unwrap();
            writeln!(out, "O {} {} => {} ; {} ; {}", cur_id, op.text(), o.result, sid, o.trace).unwrap();
            sid += 1;
            if st.samples.len() < 3 && st.transitions % 499 == 7 {
                st.samples.push(format!("shape built by [{}] then {} => {}", hist.join(", "), op.text(), o.result));
            }
            for fi in f {
                if st.room(fi.property, limits.max_findings) {
                    let mut h = hist.clone();
                    h.push(op.text());
                    st.findings.push((fi, h));
                }
            }
        }
        st.histories += 1;
    }
    st
}
