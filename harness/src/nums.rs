//! Scalar key/value types used to instantiate the collections, including an
//! instrumented key (logs every comparison) and a value with a weak hash.

use bytemuck::{Pod, Zeroable};
use std::cell::RefCell;
use std::cmp::Ordering;
use std::hash::{Hash, Hasher};

pub trait Num: Copy + Default + Pod + Zeroable + 'static {
    const SIZE: usize;
    const ALIGN: usize;
    const SIGNED: bool;
    const NAME: &'static str;
    fn from_i(i: i128) -> Self;
    fn to_i(self) -> i128;
}

macro_rules! num_impl {
    ($t:ty, $signed:expr) => {
        impl Num for $t {
            const SIZE: usize = std::mem::size_of::<$t>();
            const ALIGN: usize = std::mem::align_of::<$t>();
            const SIGNED: bool = $signed;
            const NAME: &'static str = stringify!($t);
            fn from_i(i: i128) -> Self {
                i as $t
            }
            fn to_i(self) -> i128 {
                self as i128
            }
        }
    };
}
num_impl!(u8, false);
num_impl!(u16, false);
num_impl!(u32, false);
num_impl!(u64, false);
num_impl!(i64, true);
num_impl!(i8, true);
num_impl!(u128, false);

thread_local! {
    pub static CMP_LOG: RefCell<Vec<(char, u64)>> = RefCell::new(Vec::new());
}

pub fn take_log() -> Vec<(char, u64)> {
    CMP_LOG.with(|l| std::mem::take(&mut *l.borrow_mut()))
}

/// A `u64` key whose every comparison is logged (operator and right operand).
#[repr(transparent)]
#[derive(Copy, Clone, Default, Debug, Pod, Zeroable)]
pub struct LogKey(pub u64);

impl PartialEq for LogKey {
    fn eq(&self, o: &Self) -> bool {
        CMP_LOG.with(|l| l.borrow_mut().push(('=', o.0)));
        self.0 == o.0
    }
}
impl Eq for LogKey {}
impl PartialOrd for LogKey {
    fn partial_cmp(&self, o: &Self) -> Option<Ordering> {
        CMP_LOG.with(|l| l.borrow_mut().push(('c', o.0)));
        self.0.partial_cmp(&o.0)
    }
    fn lt(&self, o: &Self) -> bool {
        CMP_LOG.with(|l| l.borrow_mut().push(('<', o.0)));
        self.0 < o.0
    }
    fn gt(&self, o: &Self) -> bool {
        CMP_LOG.with(|l| l.borrow_mut().push(('>', o.0)));
        self.0 > o.0
    }
    fn le(&self, o: &Self) -> bool {
        CMP_LOG.with(|l| l.borrow_mut().push(('l', o.0)));
        self.0 <= o.0
    }
    fn ge(&self, o: &Self) -> bool {
        CMP_LOG.with(|l| l.borrow_mut().push(('g', o.0)));
        self.0 >= o.0
    }
}
impl Ord for LogKey {
    fn cmp(&self, o: &Self) -> Ordering {
        CMP_LOG.with(|l| l.borrow_mut().push(('c', o.0)));
        self.0.cmp(&o.0)
    }
}
impl Num for LogKey {
    const SIZE: usize = 8;
    const ALIGN: usize = 8;
    const SIGNED: bool = false;
    const NAME: &'static str = "logkey";
    fn from_i(i: i128) -> Self {
        LogKey(i as u64)
    }
    fn to_i(self) -> i128 {
        self.0 as i128
    }
}

/// A `u32` value with a deliberately weak hash (`v & 1`), to force long chains.
#[repr(transparent)]
#[derive(Copy, Clone, Default, Debug, PartialEq, Eq, Pod, Zeroable)]
pub struct WeakHash(pub u32);
impl Hash for WeakHash {
    fn hash<H: Hasher>(&self, state: &mut H) {
        state.write_u8((self.0 & 1) as u8);
    }
}
impl Num for WeakHash {
    const SIZE: usize = 4;
    const ALIGN: usize = 4;
    const SIGNED: bool = false;
    const NAME: &'static str = "weak32";
    fn from_i(i: i128) -> Self {
        WeakHash(i as u32)
    }
    fn to_i(self) -> i128 {
        self.0 as i128
    }
}

/// A 16-byte element ordered by its first half only (`key`), carrying a
/// payload that the ordering ignores.
#[repr(C)]
#[derive(Copy, Clone, Default, Debug, Pod, Zeroable)]
pub struct Keyed {
    pub key: u32,
    pub payload: u32,
}
impl PartialEq for Keyed {
    fn eq(&self, o: &Self) -> bool {
        self.key == o.key
    }
}
impl Eq for Keyed {}
impl PartialOrd for Keyed {
    fn partial_cmp(&self, o: &Self) -> Option<Ordering> {
        Some(self.cmp(o))
    }
}
impl Ord for Keyed {
    fn cmp(&self, o: &Self) -> Ordering {
        self.key.cmp(&o.key)
    }
}

/// A 32-byte array key/value (the public-key-like type the crate is typically used with). Only the
/// first byte carries the harness's small universe, so that the lexicographic order of the array
/// and the numeric order of its little-endian reading coincide.
#[repr(transparent)]
#[derive(Copy, Clone, Default, Debug, PartialEq, Eq, PartialOrd, Ord, Hash, Pod, Zeroable)]
pub struct A32(pub [u8; 32]);
impl Num for A32 {
    const SIZE: usize = 32;
    const ALIGN: usize = 1;
    const SIGNED: bool = false;
    const NAME: &'static str = "a32";
    fn from_i(i: i128) -> Self {
        let mut a = [0u8; 32];
        a[0] = i as u8;
        A32(a)
    }
    fn to_i(self) -> i128 {
        let mut x = 0i128;
        for j in 0..15 {
            x |= (self.0[j] as i128) << (8 * j);
        }
        x
    }
}

/// An 8-byte hash-set value whose `Eq`/`Hash` look at `id` only (the `stamp` is ignored).
#[repr(C)]
#[derive(Copy, Clone, Default, Debug, Pod, Zeroable)]
pub struct Ticket {
    pub id: u32,
    pub stamp: u32,
}
impl PartialEq for Ticket {
    fn eq(&self, o: &Self) -> bool {
        self.id == o.id
    }
}
impl Eq for Ticket {}
impl Hash for Ticket {
    fn hash<H: Hasher>(&self, state: &mut H) {
        self.id.hash(state)
    }
}
impl Num for Ticket {
    const SIZE: usize = 8;
    const ALIGN: usize = 4;
    const SIGNED: bool = false;
    const NAME: &'static str = "ticket";
    fn from_i(i: i128) -> Self {
        Ticket { id: (i & 0xffff_ffff) as u32, stamp: ((i >> 32) & 0xffff_ffff) as u32 }
    }
    fn to_i(self) -> i128 {
        (self.id as i128) | ((self.stamp as i128) << 32)
    }
}

/// A value whose `Default` is not the all-zero bit pattern.
#[repr(transparent)]
#[derive(Copy, Clone, Debug, PartialEq, Eq, PartialOrd, Ord, Hash, Pod, Zeroable)]
pub struct Bps(pub u32);
impl Default for Bps {
    fn default() -> Self {
        Bps(10_000)
    }
}
impl Num for Bps {
    const SIZE: usize = 4;
    const ALIGN: usize = 4;
    const SIGNED: bool = false;
    const NAME: &'static str = "bps";
    fn from_i(i: i128) -> Self {
        Bps(i as u32)
    }
    fn to_i(self) -> i128 {
        self.0 as i128
    }
}

/// An 8-byte tree key ordered by `id` only (the `tag` is ignored by `PartialOrd`/`PartialEq`).
#[repr(C)]
#[derive(Copy, Clone, Default, Debug, Pod, Zeroable)]
pub struct IdTag {
    pub id: u32,
    pub tag: u32,
}
impl PartialEq for IdTag {
    fn eq(&self, o: &Self) -> bool {
        self.id == o.id
    }
}
impl PartialOrd for IdTag {
    fn partial_cmp(&self, o: &Self) -> Option<Ordering> {
        self.id.partial_cmp(&o.id)
    }
}
impl Num for IdTag {
    const SIZE: usize = 8;
    const ALIGN: usize = 4;
    const SIGNED: bool = false;
    const NAME: &'static str = "idtag";
    fn from_i(i: i128) -> Self {
        IdTag { id: (i & 0xffff_ffff) as u32, tag: ((i >> 32) & 0xffff_ffff) as u32 }
    }
    fn to_i(self) -> i128 {
        (self.id as i128) | ((self.tag as i128) << 32)
    }
}

/// Byte-array newtypes of unusual sizes (3 and 12 bytes, alignment 1). Only the first byte carries the
/// harness's small universe, so lexicographic order and little-endian numeric order coincide.
macro_rules! byte_array_num {
    ($name:ident, $n:expr, $label:expr) => {
        #[repr(transparent)]
        #[derive(Copy, Clone, Default, Debug, PartialEq, Eq, PartialOrd, Ord, Hash, Pod, Zeroable)]
        pub struct $name(pub [u8; $n]);
        impl Num for $name {
            const SIZE: usize = $n;
            const ALIGN: usize = 1;
            const SIGNED: bool = false;
            const NAME: &'static str = $label;
            fn from_i(i: i128) -> Self {
                let mut a = [0u8; $n];
                a[0] = i as u8;
                $name(a)
            }
            fn to_i(self) -> i128 {
                let mut x = 0i128;
                for j in 0..($n as usize).min(15) {
                    x |= (self.0[j] as i128) << (8 * j);
                }
                x
            }
        }
    };
}
byte_array_num!(B3, 3, "b3");
byte_array_num!(B12, 12, "b12");

/// The zero-sized value type: a tree of `()` values is a set of keys.
impl Num for () {
    const SIZE: usize = 0;
    const ALIGN: usize = 1;
    const SIGNED: bool = false;
    const NAME: &'static str = "unit";
    fn from_i(_: i128) -> Self {}
    fn to_i(self) -> i128 {
        0
    }
}
