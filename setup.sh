#!/bin/sh
# Build the framework from files on disk only (offline): Lean model + proofs + driver, Rust harness.
set -e
cd "$(dirname "$0")"
export CARGO_NET_OFFLINE=true
(cd lean && lake build 2>&1 | tail -3)
(cd harness && cargo build --release --offline 2>&1 | tail -2)
echo "setup done"
